#!/bin/sh
# tools/seed_regress.sh [seed id ...] : run each kept seeded change against its property's quick check in a scratch
# worktree of /repo (HEAD), never touching /repo or the registered evidence. Prints one line per seed.
cd /verif
SEEDS="$@"; [ -z "$SEEDS" ] && SEEDS=$(ls seeded)
for s in $SEEDS; do
  pid=$(python3 -c "import json;print(json.load(open('seeded/$s/meta.json'))['property'])")
  WT=/tmp/regress_$s; rm -rf $WT /tmp/regress_out_$s; git -C /repo worktree add -q --detach $WT HEAD || continue
  if git -C $WT apply /verif/seeded/$s/patch.diff 2>/dev/null; then
    VERIF_REPO_SRC=$WT/src VERIF_SCRATCH=/tmp/regress_out_$s ./check $pid --tier quick > /tmp/regress_$s.log 2>&1; rc=$?
    echo "$s property=$pid exit=$rc $(grep -c '^VIOLATION' /tmp/regress_$s.log) violation lines"
  else
    echo "$s property=$pid PATCH-DOES-NOT-APPLY"
  fi
  git -C /repo worktree remove --force $WT; rm -rf /tmp/regress_out_$s
done
