#!/usr/bin/env python3
"""Print the prompt handed to an independent sub-agent that seeds a property-breaking change.
Usage: seed_prompt.py <property id> <worktree dir> <out dir>
The agent gets only the property's text, never anything else from /verif."""
import json, sys
pid, wt, out = sys.argv[1:4]
focus = sys.argv[4] if len(sys.argv) > 4 else ""
p = next(json.loads(l) for l in open('/verif/properties.jsonl') if json.loads(l)['id'] == pid)
focus_text = ("\nPreferred flavour for this round: " + focus) if focus else ""
print(f"""You are helping to evaluate a verification framework for the Python library cobrapy (opencobra/cobrapy, COBRApy 0.29.0: constraint-based metabolic modelling; LP solving through optlang/GLPK).

You have your own scratch git worktree of the repository at {wt} (source under {wt}/src/cobra, tests under {wt}/tests). Work ONLY inside {wt} and {out}. Never touch /repo or /verif and do not read anything under /verif. There is no network.

How to run things against YOUR worktree (the interpreter has cobra installed in editable mode from another directory, so you MUST put your worktree first on PYTHONPATH):
  cd {wt} && PYTHONPATH={wt}/src /venv/bin/python -m pytest -q -p no:cacheprovider --timeout=900 tests            # full suite, about 3 minutes; 3 tests in tests/test_io/test_web fail for lack of network both before and after your change - ignore exactly those (test_cache, test_remote_load[...])
  cd {wt} && PYTHONPATH={wt}/src /venv/bin/python your_script.py
Verify with `python -c "import cobra; print(cobra.__file__)"` under that PYTHONPATH that the worktree copy is used.

THE PROPERTY (id {pid}): {p['title']}
Statement: {p['statement']}
It must hold: {p['quantifier']['text']}
Relevant files: {', '.join(p['anchors']['files'])}

YOUR TASK: produce TWO different, independent, realistic changes (bugs) to cobrapy's source (under src/cobra only; do not edit tests) each of which
  (a) BREAKS the property above for some inputs/histories,
  (b) still imports/compiles and still passes the ENTIRE existing test suite (same pass/fail set as before the change - run it to confirm),
  (c) looks like a plausible regression a maintainer could introduce (a refactoring slip, a wrong boundary condition, an optimisation that forgets a case, a mishandled sign/zero/infinity/negative index, a stale cache, a missing undo, two sites that each look fine alone...),
  (d) needs something SPECIFIC to manifest - a particular value class (zero, negative, infinite, equal bounds, forced flux...), a multi-step sequence of operations, an unusual argument shape, a failure path, nesting, a particular order - rather than something any ordinary use would expose at once. Do not make a change that breaks the common path.
The two changes should touch different mechanisms (different functions or different aspects of the property).{focus_text}

For EACH change i in (1, 2) write into {out}/change<i>/ :
  - patch.diff : output of `git -C {wt} diff` for that change alone (relative to the pristine HEAD; it must apply with `git apply` on a pristine checkout). Reset the worktree (`git -C {wt} checkout -- .`) between the two changes so each patch is independent.
  - demo.py : a small standalone program (uses only cobra and the standard library; builds its own tiny models in code or uses cobra.io.load_model("textbook") which works offline) that exits 0 and prints PASS on the pristine code, and exits 1 and prints FAIL on the changed code. It must fail because the PROPERTY is violated (state what is violated in a comment), not because of an unrelated crash.
  - meta.json : {{"property": "{pid}", "summary": "<one sentence: what the change does>", "needs": "<what specific input/sequence/condition is needed for it to manifest>", "files": [..], "suite": "<the exact pytest summary line you observed with the change applied>"}}

Confirm yourself before finishing: with the patch applied the full test suite gives the same results as without it (only the 3 network tests failing), demo.py fails; with the patch reverted demo.py passes. Leave the worktree clean (`git -C {wt} checkout -- .`) when done. Your final message should briefly list what the two changes are and the evidence you observed.""")
