#!/bin/sh
# tools/run_thorough_all.sh [parallelism] : every registered thorough command once, evidence/replays into scratch directories
# (the registered evidence is not touched); one summary line per property in /tmp/thorough_all/summary.txt
P=${1:-2}; cd /verif; mkdir -p /tmp/thorough_all
printf "%s\n" C09 C17 C18 C10 C13 C14 C20 C06 C01 C02 C03 C04 C05 C07 C08 C11 C12 C15 C19 | xargs -P $P -I{} sh -c '
  s=$(date +%s); VERIF_SCRATCH=/tmp/thorough_all/{} ./check {} --tier thorough > /tmp/thorough_all/{}.log 2>&1; rc=$?
  echo "{} exit=$rc $(( $(date +%s) - s ))s $(grep -c "^VIOLATION" /tmp/thorough_all/{}.log) violations :: $(grep -v "^  " /tmp/thorough_all/{}.log | grep -v "^KNOWN" | tail -1 | cut -c1-200)" >> /tmp/thorough_all/summary.txt'
