#!/bin/sh
# tools/try_seed_wt.sh <patch.diff> <name> <check args...> : like try_seed.sh but in a scratch worktree of /repo (HEAD);
# safe while other checks run against /repo.  Evidence/replays go to a scratch directory that is removed afterwards.
P="$1"; N="$2"; shift; shift
cd /verif
WT=/tmp/tryseed_$N; rm -rf $WT /tmp/tryseed_out_$N
git -C /repo worktree add -q --detach $WT HEAD || exit 3
if git -C $WT apply "$P"; then
  VERIF_REPO_SRC=$WT/src VERIF_SCRATCH=/tmp/tryseed_out_$N ./check "$@"; rc=$?
else
  echo "patch does not apply"; rc=3
fi
git -C /repo worktree remove --force $WT; rm -rf /tmp/tryseed_out_$N
echo "exit=$rc"
