#!/usr/bin/env python3
"""keep_seed.py <src dir> <seed id> <detected: yes|no|partial> <what I ran / which obligation caught it>
Copies patch.diff, demo.py into /verif/seeded/<seed id>/ and writes meta.json (agent's meta + my confirmation)."""
import json, os, shutil, sys
src, sid, detected, ran = sys.argv[1:5]
dst = os.path.join('/verif/seeded', sid)
os.makedirs(dst, exist_ok=True)
for f in ('patch.diff', 'demo.py'):
    shutil.copy(os.path.join(src, f), os.path.join(dst, f))
meta = json.load(open(os.path.join(src, 'meta.json')))
conf = json.load(open(os.path.join(src, 'confirm.json'))) if os.path.exists(os.path.join(src, 'confirm.json')) else None
out = dict(property=meta.get('property'), breaks=meta.get('summary'), needs=meta.get('needs'), files=meta.get('files'),
           author="independent sub-agent given only the property text and a scratch worktree",
           confirmed_by_me=conf, detected=detected, what_i_ran=ran)
json.dump(out, open(os.path.join(dst, 'meta.json'), 'w'), indent=1)
print("kept", dst)
