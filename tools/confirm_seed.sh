#!/bin/sh
# tools/confirm_seed.sh <seed dir with patch.diff demo.py meta.json> <name>
# Confirms a seeded change in a scratch worktree of /repo's pinned snapshot commit + current fixes (HEAD):
#   demo passes without the patch, fails with it, and the full suite with the patch matches the baseline.
# Writes <seed dir>/confirm.json ; removes the worktree.
D="$1"; N="$2"
WT=/tmp/confirm_$N
rm -rf "$WT"; git -C /repo worktree add -q --detach "$WT" HEAD || exit 3
cd "$WT"
PYTHONPATH=$WT/src /venv/bin/python "$D/demo.py" >/tmp/confirm_$N.pre 2>&1; pre=$?
if git apply "$D/patch.diff"; then applied=1; else applied=0; fi
PYTHONPATH=$WT/src /venv/bin/python "$D/demo.py" >/tmp/confirm_$N.post 2>&1; post=$?
PYTHONPATH=$WT/src /venv/bin/python -m pytest -q -p no:cacheprovider --timeout=900 -x --deselect tests/test_io/test_web/test_load.py::test_cache --deselect "tests/test_io/test_web/test_load.py::test_remote_load" tests >/tmp/confirm_$N.suite 2>&1; suite=$?
tailline=$(tail -1 /tmp/confirm_$N.suite)
cd /; git -C /repo worktree remove --force "$WT"
printf '{"applied": %s, "demo_exit_without_patch": %s, "demo_exit_with_patch": %s, "suite_exit_with_patch": %s, "suite_summary": "%s", "repo_head": "%s"}\n' "$applied" "$pre" "$post" "$suite" "$tailline" "$(git -C /repo rev-parse --short HEAD)" > "$D/confirm.json"
cat "$D/confirm.json"
rm -f /tmp/confirm_$N.pre /tmp/confirm_$N.post /tmp/confirm_$N.suite
