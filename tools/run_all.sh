#!/bin/sh
# tools/run_all.sh [quick|thorough] : run every registered check in sequence, one summary line each
T=${1:-quick}; cd /verif
for p in C01 C02 C03 C04 C05 C06 C07 C08 C09 C10 C11 C12 C13 C14 C15 C17 C18 C19 C20; do
  s=$(date +%s); ./check $p --tier $T > /tmp/runall_$p.log 2>&1; rc=$?
  echo "$p exit=$rc $(( $(date +%s) - s ))s $(grep -c '^VIOLATION' /tmp/runall_$p.log) violations, $(grep -c '^KNOWN' /tmp/runall_$p.log) known :: $(tail -1 /tmp/runall_$p.log | cut -c1-160)"
done
