#!/verif/.venv/bin/python
"""Self-test of the specification side and of the stub (DESIGN section 7): run by hand, exit 0 = all good.
 (a) gprspec: truth / tt_formula / substitute_false against brute force on all shapes
 (b) lpspec.LP.optimum (KKT oracle) against z3's exact optimiser on every template at fixed bound vectors,
     including infeasible and unbounded instances
 (c) symlp: the repository's own models (textbook, mini) built on the stub and on GLPK give the same LP, entry by entry
 (d) symlp.optimize on concrete LPs: status and optimum equal GLPK's on every template
"""
import itertools
import random
import sys
import time

sys.path.insert(0, "/verif")
import z3  # noqa: E402

from vlib import env, gprspec, networks, vsym  # noqa: E402
from vlib.lpspec import fba_lp  # noqa: E402
from vlib.observe import lp_snapshot  # noqa: E402

t0 = time.time()
n = gprspec.selftest()
print("(a) gprspec: %d shape/knock-out cases agree with brute force" % n)

# (b) oracle vs z3.Optimize
rnd = random.Random(1)
cases = 0


def harness_b(E):
    global cases
    env.for_path(E)
    tid = E.pick("t", [t for t in networks.T])
    m = networks.build(tid)
    vec = E.choice("vec", 6)
    r = random.Random(hash((tid, vec)) & 0xffff)
    for rx in m.reactions:
        lo = r.choice([-10, -3, 0, 0, 2, float("-inf")])
        hi = r.choice([10, 4, 0, 7, float("inf")])
        if lo > hi:
            lo, hi = hi, lo
        rx.bounds = (lo, hi)
    obj = networks.T[tid]["objectives"][0]
    for sense in ("max", "min"):
        lp = fba_lp(m, tag="o" + sense)
        st, opt, _, _ = lp.optimum(E, obj, sense, name="o" + sense)
        o = z3.Optimize()
        x = {v: z3.Real("z_" + v) for v in lp.vars}
        o.add(lp.feasible(x))
        tgt = lp.lin(obj, x)
        h = o.maximize(tgt) if sense == "max" else o.minimize(tgt)
        r2 = o.check()
        if r2 == z3.unsat:
            want = "infeasible"
        else:
            val = o.upper(h) if sense == "max" else o.lower(h)
            want = "unbounded" if str(val) in ("oo", "-1*oo", "+oo", "-oo") else "optimal"
        E.prove(st == want, "oracle-status=z3-optimize", got=st, want=want, t=tid, vec=vec, sense=sense)
        if st == "optimal" and want == "optimal":
            E.prove(opt == val, "oracle-optimum=z3-optimize", t=tid, vec=vec, sense=sense)


res = vsym.explore(harness_b, "selftest_b", workers=8, time_budget=300)
bad = [f for f in res.failures]
print("(b) oracle vs z3.Optimize: %d paths, obligations %s, failures %d, errors %d" % (res.paths, res.obl, len(bad), len(res.errors)))
if bad or res.errors or res.inconclusive:
    print(bad[:3], res.errors[:2])
    sys.exit(1)

# (c) stub LP == GLPK LP for the repository's own models
import cobra  # noqa: E402
from cobra.io import load_json_model, load_model  # noqa: E402

LOAD = {"textbook": lambda: load_model("textbook"), "mini": lambda: load_json_model("/repo/src/cobra/data/mini.json")}
for name in ("textbook", "mini"):
    env.install("concrete", "glpk")
    mg = LOAD[name]()
    sg = lp_snapshot(mg)
    env.install("symbolic")
    ms = LOAD[name]()
    ss = lp_snapshot(ms)
    env.install("concrete", "glpk")
    assert set(sg["variables"]) == set(ss["variables"]), name
    assert set(sg["constraints"]) == set(ss["constraints"]), name
    for k, v in sg["variables"].items():
        w = ss["variables"][k]
        assert (v["lb"], v["ub"], v["type"]) == (w["lb"], w["ub"], w["type"]), (name, k, v, w)
    for k, v in sg["constraints"].items():
        w = ss["constraints"][k]
        assert v["lb"] == w["lb"] and v["ub"] == w["ub"], (name, k)
        assert {a: b for a, b in v["coefs"].items() if b != 0} == {a: b for a, b in w["coefs"].items() if b != 0}, (name, k)
    assert sg["objective"]["direction"] == ss["objective"]["direction"]
    assert {a: b for a, b in sg["objective"]["coefs"].items() if b} == {a: b for a, b in ss["objective"]["coefs"].items() if b}
    print("(c) %s: %d variables, %d constraints identical on symlp and glpk" % (name, len(sg["variables"]), len(sg["constraints"])))


# (d) stub status / optimum vs GLPK on concrete template LPs
def harness_d(E):
    env.for_path(E)
    tid = E.pick("t", list(networks.T))
    m = networks.build(tid)
    m.objective = {m.reactions.get_by_id(r): c for r, c in networks.T[tid]["objectives"][-1].items()}
    m.objective_direction = E.pick("d", ["max", "min"])
    k = E.choice("tweak", 4)
    if k == 1:
        m.reactions[0].bounds = (0, 0)
    elif k == 2:
        m.reactions[1].bounds = (3, 4)
    elif k == 3:
        m.reactions[-1].bounds = (12, 20)
    val = m.slim_optimize()
    status = m.solver.status
    if E.symbolic:
        if status == "optimal":
            ok, mod = E._check(None)
            val = vsym._val_to_py(mod.eval(vsym.lift(val), model_completion=True))
            # uniquely determined: no other value is consistent with the KKT system
            E.prove(vsym.lift(m.solver.objective.value) == vsym.rv(val), "stub-optimum-unique")
        OUT[(tid, m.objective_direction, k)] = (status, val)
    else:
        want = OUT[(tid, m.objective_direction, k)]
        E.prove(status == want[0], "stub-status=glpk", got=status, want=want[0])
        if status == "optimal":
            E.prove(E.eq(val, want[1]), "stub-optimum=glpk")


OUT = {}
res = vsym.explore(harness_d, "selftest_d", workers=1, time_budget=200)
assert not res.errors and not res.inconclusive, res.errors[:2]
bad = 0
for (tid, d, k) in list(OUT):
    inp = {"t": list(networks.T).index(tid), "d": ("max", "min").index(d), "tweak": k}
    cp = vsym.run_concrete(harness_d, inp)
    if cp.failures or cp.exception:
        bad += 1
        print("MISMATCH", tid, d, k, cp.failures[:1], cp.exception)
print("(d) %d concrete template LPs: stub status and optimum equal GLPK's (%d mismatches)" % (len(OUT), bad))
if bad:
    sys.exit(1)
print("selftest ok in %.0fs" % (time.time() - t0))
