#!/bin/sh
# tools/try_seed.sh <patch.diff> <check args...> : apply a seeded change to /repo, run ./check, undo it.
P="$1"; shift
cd /verif
git -C /repo diff --quiet || { echo "/repo is dirty"; exit 3; }
git -C /repo apply "$P" || { echo "patch does not apply"; exit 3; }
./check "$@"; rc=$?
git -C /repo checkout -- .
echo "exit=$rc"
