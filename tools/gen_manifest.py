#!/usr/bin/env python3
"""Regenerates /verif/MANIFEST.json from the table below (single source of truth for the interface)."""
import json
import os

ROOT = os.path.dirname(os.path.dirname(os.path.abspath(__file__)))
TECH = "dynamic symbolic execution of the real cobra code on z3 (vsym) with an LP-contract stub for the solver"
NOTE_COMMON = ("Bounded: sizes/values/histories as stated in evidence 'bounds'; exact real arithmetic (float rounding "
               "outside the claim); trusted: z3 (incl. qe2; a sample of its deciding unsat verdicts is re-decided by the "
               "z3 4.8.12 and cvc5 binaries, see evidence solver_cross_check), the LP optimality contract as a description of GLPK "
               "(validated on witness replays against real glpk), numpy/pandas object-array semantics, our engine, "
               "stub, shims and oracles. Counterexamples are replayed on the unmodified build with real GLPK before "
               "being reported.")

CHECKS = {
    "C04": dict(
        text="Bounded symbolic execution of Model.optimize/slim_optimize/get_solution and the per-object accessors on "
             "the LP contract stub: for every value of all flux bounds (finite symbolic reals in [-10,10], or +-inf by "
             "structural choice) of 3-4 reaction templates, every template objective and direction, the solver proves "
             "feasibility of the returned fluxes, objective value = c.v = true optimum (independent KKT oracle), dual "
             "certification by the shadow prices, reduced cost identity, status/exception mapping on infeasible and "
             "unbounded instances, direction restored, Solution is a snapshot. The same obligations after one edit of the "
             "operation alphabet (outside / inside / after leaving a context, or: remove a reaction, edit it while detached, "
             "restore it by leaving the context) against an oracle LP rebuilt from the Python objects.",
        note="Outside: that GLPK itself meets the LP contract (tolerances, numerical statuses); models larger than the "
             "templates. Known finding: reduced costs are exactly 2(c-S^T y) (pinned by a second obligation so that any "
             "other deviation is still reported). " + NOTE_COMMON, ref="4/C04"),
    "C05": dict(
        text="Bounded symbolic execution of flux_variability_analysis (serial) on the stub: for all bounds of templates "
             "T1-T3 (thorough T4,T7), objective x direction, fraction in {1,9/10,1/2,0}, pfba_factor in {None,1,11/10}, loopless on/off, "
             "reaction_list shapes: reported range is sound (no oracle point outside, proved for all bounds at once) and "
             "tight (recorded stub primal of the producing solve attains it), min<=max, index as requested, raises "
             "exactly when no optimum exists, model unchanged. With a reaction in the list whose extreme is infinite (a cycle without "
             "upper bounds, oracle: recession cone) the call may refuse or report the infinity on exactly that side; every other "
             "number is still proved sound and tight for each position of that reaction in the list.",
        note="Outside: processes>1 (C14), fraction<1 with wrong-signed optimum (the property's own precondition). Loopless FVA: "
             "soundness/tightness of the ranges depend on which optimal vertex the solver returns and are evaluated on the GLPK "
             "replays only. " + NOTE_COMMON, ref="4/C05"),
    "C15": dict(
        text="One inductive step from an arbitrary valid DictList (n<=3) under each of 28 operations with symbolic "
             "integer arguments (indices, slice fields, payload ids): the solver case-splits every integer that reaches C "
             "code and decides the Python-level comparisons; after the step the contents equal a plain-list model, the id "
             "index is exact, lookups agree, raising operations leave the list unchanged and mandatory failures raise. "
             "Because the post-state obligation includes the representation invariant, the step covers histories of any "
             "length; thorough adds all pairs of 7 mutating operations directly.",
        note="Bounded: n<=3, payload lists <=2, indices within [-n-2,n+2]; ids are x0..x{n+1}. The solver's role here is "
             "exhaustiveness of the integer case split under the path condition, not arithmetic reasoning. " + NOTE_COMMON,
        ref="4/C15", technique="vsym bounded symbolic integers: solver-driven exhaustive case split into the real DictList code"),
}

CHECKS.update({
    "C06": dict(
        text="Bounded symbolic execution of single/double reaction and gene deletions, find_essential_genes/reactions and linear-MOMA "
             "deletions (serial) on the stub: exactly one row per unordered combination, status optimal iff the independently "
             "knocked-out problem (reactions chosen by our own rule evaluator) has an optimum, growth = that optimum or NaN, "
             "essential sets = entities whose knocked-out optimum is infeasible or below the threshold, MOMA growth = original "
             "objective at some minimal-adjustment solution (existential, witnessed by the recorded stub primal), model unchanged; "
             "for every value of the symbolic bounds. Pre-states: the model as built, a gene the user knocked out earlier (counted "
             "absent by the oracle), an uncapped route (knocked-out problems unbounded: NaN, not optimal); explicitly empty lists "
             "(no rows); essential searches also on a model without objective (threshold 0: infeasible knock-outs only).",
        note="Bounded: template T8 (4 reactions, 4 genes), T9 / T11 (forced drain), 1-3 reactions with symbolic bounds. Outside: "
             "method room / linear room in the deletion functions and quadratic moma (no QP solver); processes>1 is C14. " + NOTE_COMMON,
        ref="4/C06"),
    "C07": dict(
        text="Bounded symbolic execution of Gene.knock_out / knock_out_model_genes / Reaction.knock_out inside and outside (nested) "
             "contexts: for every rule shape (16 and/or shapes, depth<=3, shared/duplicate/absorbing genes), every subset of genes "
             "(symbolic flags), order and API variant, and every value of the symbolic original bounds: bounds are (0,0) iff the "
             "independent truth table says the rule is false, all other bounds are proved unchanged, functional flags agree, solver "
             "variable bounds follow, everything is restored on (inner and outer) context exit; also when the knock-out meets "
             "state left by earlier ones (gene flag already False through the setter, gene knocked out before and the reactions "
             "re-opened by the user, gene listed twice).",
        note="Bounded: <=4 genes, <=2 ruled reactions + one rule-less, shapes from a fixed list. " + NOTE_COMMON, ref="4/C07"),
    "C08": dict(
        text="Symbolic knock-out sets (one z3 Bool per gene, forked lazily by the real short-circuit evaluation) through GPR.from_string/"
             "eval/to_string/copy/pickle/as_symbolic/from_symbolic/__eq__ and remove_genes: eval equals the independent truth table for "
             "all knock-out sets, genes = leaves, every round trip keeps genes, equality and truth table, == implies logical equivalence "
             "(z3 over all knock-out sets), remove_genes leaves rules equivalent to old[R:=false]. Identifiers, shapes and spellings are "
             "enumerated exhaustively within the stated tables.",
        note="Strings are concrete on each path (Python's parser is C): z3 decides the path tree and the Boolean equivalences. "
             "Factorised bound: 60 awkward identifiers x 5 contexts, 16 shapes over plain ids, pairs of awkward ids only in depth<=2 "
             "shapes; ids containing blanks, cobrapy's own escape tokens, or equal to AND/OR are outside the supported class. "
             + NOTE_COMMON, ref="4/C08"),
    "C09": dict(
        text="Bounded symbolic execution of pfba/add_pfba/fix_objective_as_constraint and moma/add_moma(linear) on the stub: the returned "
             "fluxes are steady-state and in bounds, keep the objective at the requested fraction of the true optimum, total |flux| equals "
             "the minimum of an independent LP with |.| auxiliaries (own KKT certificate), objective_value equals it, index = requested "
             "reactions; linear MOMA: feasible, distance to the given reference minimal, objective_value equals it; for every value of "
             "the symbolic bounds and with the reference itself symbolic (taken from the stub). ROOM (MILP variant) on the stub's MILP "
             "contract (binary switches enumerated inside the formula, each assignment certified by KKT or by a quantifier-free "
             "infeasibility condition): result feasible, objective_value = number of fluxes outside the documented band around the "
             "reference, and no distribution of the (knocked-out) model leaves the band in fewer reactions (universal), for all values of "
             "two symbolic reactions' bounds, concrete references, (delta, epsilon) from a list, configured default bounds wider or "
             "narrower than the model's. Linear ROOM: concrete models/references (81 combinations), the solver quantifying over every "
             "optimal solution of the LP contract: relaxed sum = optimum of the documented relaxed problem.",
        note="ROOM bounds: T1 with 3 binaries (quick), band edges compared with a 1e-9 margin because add_room computes them in float "
             "arithmetic; linear ROOM has bilinear coefficients (bound x switch) and is therefore checked for concrete bounds only; the "
             "symbolic-reference variant of ROOM is thorough-only. NOT claimed: quadratic MOMA (no QP solver). Bounded: templates "
             "T1-T4,T7 with up to all bounds symbolic. " + NOTE_COMMON, ref="4/C09"),
})

CHECKS.update({
    "C01": dict(
        text="Histories of public operations (32 operations x argument shapes incl. raising variants, enter/exit; patterned "
             "histories in which a reaction is removed, edited while detached and brought back by add_reactions or by the context exit) on a model whose "
             "symbolic reaction has symbolic stoichiometric coefficients and bounds; new numeric arguments are fresh symbolic reals. "
             "After every step the LP recorded by the stub is proved to be exactly the split encoding of the flux-balance problem of the "
             "Python objects: one forward/reverse pair per reaction whose net range equals the reaction bounds (+-inf structurally, no "
             "float infinities), one equality row per metabolite with exactly the current coefficients, objective = reported "
             "coefficients and direction (and model.objective.expression as read back is that row and mentions no missing "
             "variable), nothing else except declared user constraints/variables.",
        note="Bounded: histories of length 1 (full alphabet), 2 (sub-alphabet quick, full thorough), 3 (sub-alphabet thorough); one "
             "symbolic reaction. optlang's translation to GLPK, solver cloning and the GLPK text-format copy are trusted base, "
             "cross-checked on witness replays (GLPK problem read back through optlang); switching the solver interface runs cobrapy's "
             "setter against a second instance of the contract stub presented as another interface (glpk <-> glpk_exact on replays). "
             + NOTE_COMMON, ref="4/C01"),
    "C02": dict(
        text="Same histories as C01; after every step (a) the state is compared with an executable reference of the documented "
             "semantics (vlib/refmodel.py, written from the docstrings: bounds setters, knock_out, add/subtract metabolites with "
             "combine/replace and zero-coefficient removal, *=, +=, -=, rules, add/remove reactions incl. remove_orphans, add/remove "
             "metabolites incl. destructive, remove_genes with rule simplification, rename of genes/reactions/metabolites; a raising "
             "call changes nothing) - symbolic coefficients and bounds proved equal, rules compared as Boolean functions - and (b) "
             "the cross-reference invariants are decided (back references, objects are the model's own, reaction.genes = genes of "
             "its rule, unique ids, exact indices, groups reference members of the model, no coefficient can be zero).",
        note="Operations without a reference clause (objective-only changes are identity; add_boundary, groups, medium, gene "
             "knock-outs, build_reaction_from_string, merge, helpers) switch the reference comparison off for the rest of that "
             "history; invariants still apply. Where the documentation is silent nothing is asserted (state after a raising "
             "multi-key call, fate of ignored objects). Back references from reactions the user holds detached are tolerated. "
             + NOTE_COMMON, ref="4/C02"),
    "C03": dict(
        text="Bracketed histories: enter, up to k operations of the documented-as-reversible alphabet (26 operations x argument shapes, "
             "membership cross-checked by an ast/docstring scan), nested enter..exit, termination normally or by the exception of a "
             "raising variant. At every exit the full observation (content, objective and direction, LP, cross references, group "
             "membership; list order aside) is proved equal to the one at the matching enter for all values of the symbolic inputs, the "
             "exit must not raise and the context stack is back at its entry depth.",
        note="Bounded: k=1 full alphabet with symbolic coefficients, all pairs of the sub-alphabet, all triples of bound / knock-out / "
             "objective-coefficient edits on one reaction, nesting depth 2 with up to 3 steps "
             "(thorough: all pairs of the full alphabet, 4 steps). Undo by 1/k is exact over the reals; scale factors are powers of two so "
             "that float rounding (outside the claim) does not show. Renames are not documented as reversible and are not in the "
             "alphabet. " + NOTE_COMMON, ref="4/C03"),
    "C10": dict(
        text="(1) Document layer: write_sbml_model / read_sbml_model through the real _model_to_sbml, _create_bound, _create_parameter, "
             "_sbase_notes_dict, _sbase_annotations, _sbml_to_model, _parse_notes_dict, _parse_annotations with symbolic stoichiometric "
             "coefficients, bounds (finite / infinite / zero / equal to the configured defaults, defaults +-1000 or +-10) and objective "
             "coefficient, direction, charges, formulas, names, compartments, notes, annotations (incl. an identifier contained in "
             "another), gene rules, groups (reactions, metabolites, genes as members), plain identifiers or identifiers that need escaping "
             "wherever they are referred to (species references, gene rules, flux objectives, group members): export and import do not fail, writing leaves the model alone, the full observation incl. "
             "the LP is proved equal after the round trip and a second round trip is the identity.  (2) Third-party documents built "
             "through the libsbml API in shapes the writer never produces (species referenced twice on one side or on both sides, "
             "shared / own / missing bound parameters, two flux objectives, minimisation) with symbolic stoichiometries, parameter "
             "values and objective coefficients: the loaded stoichiometry is the net of the references, bounds are the parameter values, "
             "objective coefficients and direction as in the document.  On symbolic paths the name libsbml in cobra.io.sbml is bound "
             "to a documented pure-Python stand-in of the object model (vlib/fakesbml.py); the witnesses of the paths are replayed with "
             "the real libsbml, where the written document is also put to validate_sbml_model.  (3) Identifier-escaping kernel "
             "(_f_*/_f_*_rev, _escape_non_alphanum, _number_to_chr, _clip): CrossHair on a symbolic str (len<=5) per condition (round "
             "trip, SId validity, reachability twin) and a vsym case split over every string of length <=4 (thorough 5) of a class "
             "alphabet; injectivity on all pairs of length <=2 (thorough 3).",
        note="The stand-in is part of the claim for (1) and (2): identifier / SId / metaid / SBO / formula validation, unset values, "
             "CVTerm merging, infix gene associations, package plug-ins as observed on libsbml 5.20 (DESIGN 10.5); the XML text layer "
             "(17-digit number formatting, escaping), validity of the written document and the libsbml parser are exercised on witness "
             "replays only.  Notes values are plain strings; "
             "model history / creators, kinetic-law legacy encodings, fbc-v1 conversion and files on disk are outside.  CrossHair's "
             "'Not confirmed' is reported as 'no counterexample within the budget', not as exhaustive.  Known findings: ids in which an "
             "underscore meets digits; an empty objective is written without listOfFluxObjectives (rejected by the validator). "
             + NOTE_COMMON, ref="10.5",
        technique="dynamic symbolic execution of the real SBML reader/writer on z3 (vsym) with a documented libsbml stand-in, witnesses "
                  "replayed on the real libsbml; CrossHair symbolic strings + exhaustive class-alphabet case split for the id escaping"),
    "C11": dict(
        text="Bounded symbolic execution of model_to_dict/model_from_dict and the JSON / YAML / pickle / deepcopy paths (string and "
             "file-handle variants, sort on/off, non-default Configuration().bounds) with symbolic stoichiometry, bounds (infinities by "
             "choice), objective coefficient and direction: loading never raises, the full observation incl. the LP is proved equal, a "
             "second round trip is the identity.",
        note="The text layer of json / ruamel.yaml is replaced by a structural token stub (keys to str, tuples to lists, non-finite "
             "floats rejected like allow_nan=False) and exercised for real on witness replays only. Groups are not part of the dict "
             "format and not compared there. Known finding: direction not stored by dict/JSON/YAML. " + NOTE_COMMON, ref="4/C11"),
    "C12": dict(
        text="Model.copy / deepcopy / pickle with groups, a user constraint and optionally an open context: observations proved equal, "
             "copy passes the cross-reference invariants, no mutable object reachable from both models (object-graph walker), and after "
             "one edit (any operation of the alphabet, or an in-place mutation of each of 14 public mutable containers) on either side "
             "the other side is proved unchanged; Reaction.copy / Metabolite.copy / + - * / +0 / sum leave operands unchanged and return "
             "detached objects.",
        note="optlang's GLPK deep copy is replaced by the stub's own clone (witness replays exercise the real one). One edit after "
             "copying; the model has ids shared between containers (metabolite named like a reaction, group named like a gene). "
             "Thorough: the copy is taken after a history of one or two operations (inside an open context or not) and must also "
             "hold exactly its own flux-balance problem; histories that already break C01/C02 on the original are not continued. " + NOTE_COMMON, ref="4/C12"),
    "C13": dict(
        text="One uniform harness over 18 (thorough 24) analyses - optimize, slim_optimize, FVA variants, blocked/essential searches, "
             "pFBA, linear MOMA, single/double deletions, loopless_solution, assess, minimal_medium, summaries, fastcc - called inside or "
             "outside a user context on models whose symbolic bounds make them succeed, report infeasibility or raise part-way, with a "
             "gene already knocked out, with empty (assigned empty, or never assigned) or minimising objectives: the full observation (content, bounds, objective, LP, gene "
             "states, context depth) is proved unchanged and a second call returns the same uniquely defined quantities. The analysis "
             "harnesses of C04-C06, C09, C14, C17-C20 carry the same 'model-unchanged' obligation on every path.",
        note="ROOM, gapfill and minimal_medium(minimize_components) run on the stub's MILP contract, production_envelope with points=3 "
             "(gapfill works on a copy of the model; its result is not judged here). Not applicable part: sampling (float numerics); "
             "geometric_fba only in the thorough tier on T1. " + NOTE_COMMON, ref="4/C13"),
    "C14": dict(
        text="processes>1 branches of flux_variability_analysis and single/double deletions executed on a nondeterministic in-process "
             "pool: each worker gets its own unpickled copy of the model and private module globals; which worker takes which chunk and "
             "the completion order are symbolic choices, all explored within the bound; for every schedule and every permutation of the "
             "item list the values equal the serial run's (proved for all bounds), each item alone gives the same value, the worker's "
             "model is unchanged after every task, the caller's model is unchanged; also when the same model object was screened "
             "serially before with other bounds (nothing of an earlier call may survive in the process). find_blocked_reactions, "
             "find_essential_genes / find_essential_reactions and loopless FVA through the same pool return the serial run's sets "
             "(loopless: the same rows). FVA also with a reaction whose extreme is infinite in the list (whatever is answered must not "
             "depend on the order).",
        note="NOT claimed: the OptGP sampling sentence (float numerics) and the operating system's real scheduling / pickling across "
             "processes - the pool is a stub implementing the documented multiprocessing.Pool contract. Bounded: 2 (thorough 3) workers, "
             "3-4 items. " + NOTE_COMMON, ref="4/C14"),
    "C17": dict(
        text="loopless_solution on the stub, templates with 2- and 3-cycles and every reversibility pattern reachable through the signs "
             "of the symbolic bounds, objective on a boundary reaction or on a reaction of the cycle, start vector = the solver's optimum "
             "or a symbolic vector assumed feasible and optimal (given in model order or reversed, with or without another problem "
             "having been solved last): result is "
             "steady-state, in bounds, same objective value and boundary fluxes, no sign flip or growth per reaction, and no steady-state "
             "distribution with the same boundary fluxes/objective/signs and smaller total flux exists (proved universally). "
             "add_loopless followed by optimize on the stub's MILP contract (one binary indicator per internal reaction, all assignments "
             "enumerated inside the formula; null-space rows from the float SVD of the concrete stoichiometry): status optimal iff a "
             "cycle-free steady-state distribution exists (oracle: no elementary internal cycle runs in its orientation), the reported "
             "solution is feasible and cycle-free, and no cycle-free distribution has a better objective (universal); bounds set before "
             "or after add_loopless, reactions written backwards with |lb| above every upper bound, objective on a boundary or cycle "
             "reaction, max/min.",
        note="add_loopless bounds: T3, T10, T12 (2-3 binaries), 2 symbolic reactions; bounds edited after add_loopless stay within the "
             "largest bound the model had when it was called. " + NOTE_COMMON, ref="4/C17"),
    "C18": dict(
        text="Model.medium setter/getter and linear minimal_medium on template T5 (exchanges written in both directions, sink, demand; "
             "SBO-annotated or heuristic classification): listed import bound = value, unlisted imports closed, export bounds and non-"
             "exchanges proved untouched, getter = entries with positive import, set(get) identity; minimal medium None iff no medium "
             "suffices (oracle), total import equals an independent LP minimum, returned medium is sufficient (witnessed), model unchanged. "
             "minimize_components=True on the stub's MILP contract (binary indicators enumerated inside the formula): None iff no medium "
             "suffices, imports positive, returned medium sufficient, and no sufficient distribution imports through fewer exchanges "
             "(universal).",
        note="minimize_components: True and 3 (more alternative media asked for than exist), 2 exchanges. "
             "Forced-import situations where the setter must fail are a stated precondition. " + NOTE_COMMON, ref="4/C18"),
    "C19": dict(
        text="find_blocked_reactions (pre-filter, FVA, masks; reaction_list shapes; open_exchanges; model solved before the bounds were "
             "set, or never) on T6/T3/T2 with 3-4 symbolic reactions whose bounds span zero: reported => no steady-state distribution carries flux (universal), not reported => some "
             "does (existential, by quantifier elimination); fastcc: kept reactions unchanged, can carry flux, no orphans, input unchanged.",
        note="fastcc completeness depends on which optimal solution the solver returns and is evaluated on the concrete GLPK replays "
             "of the explored paths only (known finding: reversible non-blocked reactions are dropped). Tolerance discipline: finite "
             "symbolic bounds are 0 or at least 1e-2 in magnitude. " + NOTE_COMMON, ref="4/C19"),
    "C20": dict(
        text="Model, metabolite and reaction summaries generated from a symbolic Solution (fluxes symbolic, steady-state, in bounds) and "
             "optional symbolic FVA frame through the real pandas code on object columns: every boundary reaction / reaction of the "
             "metabolite exactly once on the side given by the sign of flux x coefficient, listed flux = flux x coefficient, objective "
             "value, production = consumption, percentages sum to one (the only nonlinear queries), FVA ranges scaled and swapped like the "
             "flux. With the solution defaulted to pFBA (real pfba on the stub): objective value = optimum of the model as it stands, "
             "listed fluxes belong to one of its optima - also after an earlier summary and a stoichiometry edit. summary(fva=<fraction>): "
             "shown ranges = oracle FVA ranges at that fraction scaled by the boundary coefficient (sound and attained, equal bounds "
             "included). Given solutions of status optimal or not; an earlier summary built from the very same solution and frame "
             "(caller's frame proved unchanged); two boundary reactions on one metabolite; a metabolite without reactions.",
        note="Rendering (to_string / to_html / to_frame / _repr_html_; three times, names on and off; must leave the summary's tables "
             "unchanged) formats floats and is exercised on the concrete witness of every explored path class, not symbolically. Fluxes are 0 or at least 1e-3 in magnitude (display cutoff discipline). "
             + NOTE_COMMON, ref="4/C20"),
})

NA = {
    "C16": "samplers are float64 numpy linear algebra (SVD null space, data-dependent products, re-projection) driven by a "
           "PRNG; no symbolic value survives them and re-implementing them would not be executing the real code "
           "(DESIGN.md section 5)",
}

PENDING = "check not yet built in this session (see DESIGN.md section 9 build order); not claimed until it is"


def main():
    props = [json.loads(l) for l in open(os.path.join(ROOT, "properties.jsonl"))]
    checks = []
    na = []
    for p in props:
        pid = p["id"]
        if pid in CHECKS:
            c = CHECKS[pid]
            checks.append(dict(
                property_id=pid,
                quick_cmd="./check %s --tier quick" % pid,
                thorough_cmd="./check %s --tier thorough" % pid,
                evidence_file="evidence/%s.json" % pid,
                replay_cmd_template="./check %s --replay {path}" % pid,
                engine="vsym",
                level_claimed=dict(category="model_checking", text=c["text"], design_ref="DESIGN.md section " + c["ref"]),
                level_note=c["note"],
                technique=c.get("technique", TECH)))
        else:
            na.append(dict(property_id=pid, reason=NA.get(pid, PENDING)))
    man = dict(
        version=1,
        setup_cmd="./setup.sh",
        hooks=dict(guard="COBRAPY_VERIF",
                   enable="no source hooks are needed: the LP stub (vlib/symlp.py) is registered at run time through "
                          "cobra.util.solver.solvers and the shims rebind module-level names from /verif (DESIGN.md 2.3, 2.10)",
                   baseline_off_cmd="cd /repo && /venv/bin/python -m pytest -ra -q -p no:cacheprovider --timeout=900 "
                                    "--continue-on-collection-errors",
                   source_commits=[], add_only=True),
        engines=[dict(name="crosshair", path="crosshair/c10_ids.py", serves_properties=["C10"],
                      kind_free_text="CrossHair 0.0.110 symbolic execution of the id escaping functions on a symbolic str"),
                 dict(name="vsym", path="vlib/vsym.py", serves_properties=sorted(CHECKS),
                      kind_free_text="dynamic symbolic execution of real Python on z3: proxy values, exhaustive "
                                     "re-execution with decision prefixes, quantifier elimination for LP feasibility forks"),
                 dict(name="symlp", path="vlib/symlp.py", serves_properties=sorted(CHECKS),
                      kind_free_text="optlang-compatible LP contract stub (KKT / infeasible / unbounded) reusing optlang's "
                                     "own add/remove/update code; MILP contract for small numbers of bounded integer variables "
                                     "(assignments enumerated inside the formula)")],
        checks=checks,
        not_applicable=na,
        notes="Exit codes of every command: 0 = all explored obligations discharged (KNOWN-FINDING lines for listed "
              "findings), 1 = confirmed unlisted violation (VIOLATION line, replayed on real GLPK), 2 = inconclusive / "
              "harness error. Fix commits in /repo: see known_findings.json 'fixed'.")
    with open(os.path.join(ROOT, "MANIFEST.json"), "w") as f:
        json.dump(man, f, indent=1)
    print("MANIFEST.json: %d checks, %d not_applicable" % (len(checks), len(na)))


if __name__ == "__main__":
    main()
