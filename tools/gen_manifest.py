#!/usr/bin/env python3
"""Regenerates /verif/MANIFEST.json from the table below (single source of truth for the interface)."""
import json
import os

ROOT = os.path.dirname(os.path.dirname(os.path.abspath(__file__)))
TECH = "dynamic symbolic execution of the real cobra code on z3 (vsym) with an LP-contract stub for the solver"
NOTE_COMMON = ("Bounded: sizes/values/histories as stated in evidence 'bounds'; exact real arithmetic (float rounding "
               "outside the claim); trusted: z3 (incl. qe2), the LP optimality contract as a description of GLPK "
               "(validated on witness replays against real glpk), numpy/pandas object-array semantics, our engine, "
               "stub, shims and oracles. Counterexamples are replayed on the unmodified build with real GLPK before "
               "being reported.")

CHECKS = {
    "C04": dict(
        text="Bounded symbolic execution of Model.optimize/slim_optimize/get_solution and the per-object accessors on "
             "the LP contract stub: for every value of all flux bounds (finite symbolic reals in [-10,10], or +-inf by "
             "structural choice) of 3-4 reaction templates, every template objective and direction, the solver proves "
             "feasibility of the returned fluxes, objective value = c.v = true optimum (independent KKT oracle), dual "
             "certification by the shadow prices, reduced cost identity, status/exception mapping on infeasible and "
             "unbounded instances, direction restored, Solution is a snapshot.",
        note="Outside: that GLPK itself meets the LP contract (tolerances, numerical statuses); models larger than the "
             "templates. Known finding: reduced costs are exactly 2(c-S^T y) (pinned by a second obligation so that any "
             "other deviation is still reported). " + NOTE_COMMON, ref="4/C04"),
    "C05": dict(
        text="Bounded symbolic execution of flux_variability_analysis (serial) on the stub: for all bounds of templates "
             "T1-T3 (thorough T4,T7), objective x direction, fraction in {1,9/10,1/2,0}, pfba_factor in {None,1,11/10}, "
             "reaction_list shapes: reported range is sound (no oracle point outside, proved for all bounds at once) and "
             "tight (recorded stub primal of the producing solve attains it), min<=max, index as requested, raises "
             "exactly when no optimum exists, model unchanged.",
        note="Outside: processes>1 (C14), loopless option pending, fraction<1 with wrong-signed optimum (the "
             "property's own precondition). " + NOTE_COMMON, ref="4/C05"),
    "C15": dict(
        text="One inductive step from an arbitrary valid DictList (n<=3) under each of 28 operations with symbolic "
             "integer arguments (indices, slice fields, payload ids): the solver case-splits every integer that reaches C "
             "code and decides the Python-level comparisons; after the step the contents equal a plain-list model, the id "
             "index is exact, lookups agree, raising operations leave the list unchanged and mandatory failures raise. "
             "Because the post-state obligation includes the representation invariant, the step covers histories of any "
             "length; thorough adds all pairs of 7 mutating operations directly.",
        note="Bounded: n<=3, payload lists <=2, indices within [-n-2,n+2]; ids are x0..x{n+1}. The solver's role here is "
             "exhaustiveness of the integer case split under the path condition, not arithmetic reasoning. " + NOTE_COMMON,
        ref="4/C15", technique="vsym bounded symbolic integers: solver-driven exhaustive case split into the real DictList code"),
}

CHECKS.update({
    "C06": dict(
        text="Bounded symbolic execution of single/double reaction and gene deletions, find_essential_genes/reactions and linear-MOMA "
             "deletions (serial) on the stub: exactly one row per unordered combination, status optimal iff the independently "
             "knocked-out problem (reactions chosen by our own rule evaluator) has an optimum, growth = that optimum or NaN, "
             "essential sets = entities whose knocked-out optimum is infeasible or below the threshold, MOMA growth = original "
             "objective at some minimal-adjustment solution (existential, witnessed by the recorded stub primal), model unchanged; "
             "for every value of the symbolic bounds.",
        note="Bounded: template T8 (4 reactions, 4 genes) and T9 (forced drain), 1-3 reactions with symbolic bounds. Outside: "
             "method room / linear room (MILP, bilinear) and quadratic moma (no QP solver); processes>1 is C14. " + NOTE_COMMON,
        ref="4/C06"),
    "C07": dict(
        text="Bounded symbolic execution of Gene.knock_out / knock_out_model_genes / Reaction.knock_out inside and outside (nested) "
             "contexts: for every rule shape (16 and/or shapes, depth<=3, shared/duplicate/absorbing genes), every subset of genes "
             "(symbolic flags), order and API variant, and every value of the symbolic original bounds: bounds are (0,0) iff the "
             "independent truth table says the rule is false, all other bounds are proved unchanged, functional flags agree, solver "
             "variable bounds follow, everything is restored on (inner and outer) context exit.",
        note="Bounded: <=4 genes, <=2 ruled reactions + one rule-less, shapes from a fixed list. " + NOTE_COMMON, ref="4/C07"),
    "C08": dict(
        text="Symbolic knock-out sets (one z3 Bool per gene, forked lazily by the real short-circuit evaluation) through GPR.from_string/"
             "eval/to_string/copy/pickle/as_symbolic/from_symbolic/__eq__ and remove_genes: eval equals the independent truth table for "
             "all knock-out sets, genes = leaves, every round trip keeps genes, equality and truth table, == implies logical equivalence "
             "(z3 over all knock-out sets), remove_genes leaves rules equivalent to old[R:=false]. Identifiers, shapes and spellings are "
             "enumerated exhaustively within the stated tables.",
        note="Strings are concrete on each path (Python's parser is C): z3 decides the path tree and the Boolean equivalences. "
             "Factorised bound: 60 awkward identifiers x 5 contexts, 16 shapes over plain ids, pairs of awkward ids only in depth<=2 "
             "shapes; ids containing blanks, cobrapy's own escape tokens, or equal to AND/OR are outside the supported class. "
             + NOTE_COMMON, ref="4/C08"),
    "C09": dict(
        text="Bounded symbolic execution of pfba/add_pfba/fix_objective_as_constraint and moma/add_moma(linear) on the stub: the returned "
             "fluxes are steady-state and in bounds, keep the objective at the requested fraction of the true optimum, total |flux| equals "
             "the minimum of an independent LP with |.| auxiliaries (own KKT certificate), objective_value equals it, index = requested "
             "reactions; linear MOMA: feasible, distance to the given reference minimal, objective_value equals it; for every value of "
             "the symbolic bounds and with the reference itself symbolic (taken from the stub).",
        note="NOT claimed: ROOM in both variants (MILP binaries / bilinear coefficients) and quadratic MOMA (no QP solver) - stated as "
             "outside. Bounded: templates T1-T4,T7 with up to all bounds symbolic. " + NOTE_COMMON, ref="4/C09"),
})

NA = {
    "C16": "samplers are float64 numpy linear algebra (SVD null space, data-dependent products, re-projection) driven by a "
           "PRNG; no symbolic value survives them and re-implementing them would not be executing the real code "
           "(DESIGN.md section 5)",
}

PENDING = "check not yet built in this session (see DESIGN.md section 9 build order); not claimed until it is"


def main():
    props = [json.loads(l) for l in open(os.path.join(ROOT, "properties.jsonl"))]
    checks = []
    na = []
    for p in props:
        pid = p["id"]
        if pid in CHECKS:
            c = CHECKS[pid]
            checks.append(dict(
                property_id=pid,
                quick_cmd="./check %s --tier quick" % pid,
                thorough_cmd="./check %s --tier thorough" % pid,
                evidence_file="evidence/%s.json" % pid,
                replay_cmd_template="./check %s --replay {path}" % pid,
                engine="vsym",
                level_claimed=dict(category="model_checking", text=c["text"], design_ref="DESIGN.md section " + c["ref"]),
                level_note=c["note"],
                technique=c.get("technique", TECH)))
        else:
            na.append(dict(property_id=pid, reason=NA.get(pid, PENDING)))
    man = dict(
        version=1,
        setup_cmd="./setup.sh",
        hooks=dict(guard="COBRAPY_VERIF",
                   enable="no source hooks are needed: the LP stub (vlib/symlp.py) is registered at run time through "
                          "cobra.util.solver.solvers and the shims rebind module-level names from /verif (DESIGN.md 2.3, 2.10)",
                   baseline_off_cmd="cd /repo && /venv/bin/python -m pytest -ra -q -p no:cacheprovider --timeout=900 "
                                    "--continue-on-collection-errors",
                   source_commits=[], add_only=True),
        engines=[dict(name="vsym", path="vlib/vsym.py", serves_properties=sorted(CHECKS),
                      kind_free_text="dynamic symbolic execution of real Python on z3: proxy values, exhaustive "
                                     "re-execution with decision prefixes, quantifier elimination for LP feasibility forks"),
                 dict(name="symlp", path="vlib/symlp.py", serves_properties=sorted(CHECKS),
                      kind_free_text="optlang-compatible LP contract stub (KKT / infeasible / unbounded) reusing optlang's "
                                     "own add/remove/update code")],
        checks=checks,
        not_applicable=na,
        notes="Exit codes of every command: 0 = all explored obligations discharged (KNOWN-FINDING lines for listed "
              "findings), 1 = confirmed unlisted violation (VIOLATION line, replayed on real GLPK), 2 = inconclusive / "
              "harness error. Fix commits in /repo: see known_findings.json 'fixed'.")
    with open(os.path.join(ROOT, "MANIFEST.json"), "w") as f:
        json.dump(man, f, indent=1)
    print("MANIFEST.json: %d checks, %d not_applicable" % (len(checks), len(na)))


if __name__ == "__main__":
    main()
