#!/bin/sh
# tools/process_seed.sh <out root, e.g. /tmp/seedout3> <PID> : confirm both changes of a seed agent and run the
# property's quick check against each (scratch worktrees only). Results: <root>/<PID>/change<i>/{confirm.json,try.log}
R="$1"; P="$2"
for i in 1 2; do
  D=$R/$P/change$i
  [ -f $D/patch.diff ] || continue
  /verif/tools/confirm_seed.sh $D r5_${P}_$i > $D/confirm.log 2>&1
  /verif/tools/try_seed_wt.sh $D/patch.diff r5_${P}_$i $P --tier quick > $D/try.log 2>&1
  echo "$P change$i confirm: $(cut -c1-120 $D/confirm.json 2>/dev/null) :: $(grep -v '^  ' $D/try.log | tail -2 | tr '\n' ' ' | cut -c1-200)"
done
