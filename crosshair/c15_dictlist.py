"""CrossHair contracts for single-index DictList operations (C15 second engine, DESIGN 4/C15).
State: any valid list of n <= 3 elements x0..x{n-1}; arguments are symbolic ints.  post: the id index is exact and
the contents equal the plain-list model; a raising call leaves the list unchanged."""
from cobra.core.dictlist import DictList
from cobra.core.object import Object


def _mk(n: int):
    objs = [Object("x%d" % i) for i in range(n)]
    return DictList(objs), objs


def _exact(dl, ref) -> bool:
    items = list(list.__iter__(dl))
    return len(items) == len(ref) and all(a is b for a, b in zip(items, ref)) and dl._dict == {o.id: i for i, o in enumerate(items)}


def _insert(n: int, i: int, k: int) -> bool:
    """
    pre: 0 <= n <= 3 and -5 <= i <= 5 and 0 <= k <= 4
    post: _
    """
    dl, objs = _mk(n)
    x = Object("x%d" % k)
    ref = list(objs)
    try:
        dl.insert(i, x)
    except ValueError:
        return k < n and _exact(dl, ref)
    ref.insert(i, x)
    return k >= n and _exact(dl, ref)


def _pop(n: int, i: int) -> bool:
    """
    pre: 0 <= n <= 3 and -5 <= i <= 5
    post: _
    """
    dl, objs = _mk(n)
    ref = list(objs)
    try:
        got = dl.pop(i)
    except IndexError:
        return not (-n <= i < n) and _exact(dl, ref)
    want = ref.pop(i)
    return got is want and _exact(dl, ref)


def _delitem(n: int, i: int) -> bool:
    """
    pre: 0 <= n <= 3 and -5 <= i <= 5
    post: _
    """
    dl, objs = _mk(n)
    ref = list(objs)
    try:
        del dl[i]
    except IndexError:
        return not (-n <= i < n) and _exact(dl, ref)
    del ref[i]
    return _exact(dl, ref)


def _setitem(n: int, i: int, k: int) -> bool:
    """
    pre: 0 <= n <= 3 and -5 <= i <= 5 and 0 <= k <= 4
    post: _
    """
    dl, objs = _mk(n)
    x = Object("x%d" % k)
    ref = list(objs)
    try:
        dl[i] = x
    except (IndexError, ValueError):
        return _exact(dl, ref)
    ref[i] = x
    return _exact(dl, ref)


def _append_remove(n: int, k: int) -> bool:
    """
    pre: 0 <= n <= 3 and 0 <= k <= 4
    post: _
    """
    dl, objs = _mk(n)
    x = Object("x%d" % k)
    ref = list(objs)
    try:
        dl.append(x)
        ref.append(x)
    except ValueError:
        if not (k < n and _exact(dl, ref)):
            return False
    try:
        dl.remove("x0")
        ref.pop(0)
    except ValueError:
        if n != 0 and k != 0:
            return False
    return _exact(dl, ref)


def _twin_insert(n: int, i: int, k: int) -> bool:
    """
    pre: 0 <= n <= 3 and -5 <= i <= 5 and 0 <= k <= 4
    post: False
    """
    dl, objs = _mk(n)
    dl.insert(i, Object("y"))
    return True
