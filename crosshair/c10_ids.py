"""CrossHair contracts for the SBML identifier-escaping kernel (C10, DESIGN 2.4).
Each private function is one obligation over a *symbolic str*; `crosshair check` searches its paths with z3.
The functions under test are imported from /repo/src (the real code)."""
import re

from cobra.io.sbml import (_f_gene, _f_gene_rev, _f_group, _f_group_rev, _f_reaction, _f_reaction_rev, _f_specie,
                           _f_specie_rev)

SID = re.compile(r"^[A-Za-z_][A-Za-z0-9_]*$")


def _rt_reaction_no_underscore(s: str) -> bool:
    """
    pre: len(s) <= 5 and len(s) >= 1 and "_" not in s
    post: _
    """
    return _f_reaction(_f_reaction_rev(s)) == s


def _rt_specie_no_underscore(s: str) -> bool:
    """
    pre: len(s) <= 5 and len(s) >= 1 and "_" not in s
    post: _
    """
    return _f_specie(_f_specie_rev(s)) == s


def _rt_gene_no_underscore(s: str) -> bool:
    """
    pre: len(s) <= 5 and len(s) >= 1 and "_" not in s
    post: _
    """
    return _f_gene(_f_gene_rev(s)) == s


def _rt_group_no_underscore(s: str) -> bool:
    """
    pre: len(s) <= 5 and len(s) >= 1 and "_" not in s
    post: _
    """
    return _f_group(_f_group_rev(s)) == s


def _rt_reaction_any(s: str) -> bool:
    """
    pre: len(s) <= 5 and len(s) >= 1
    post: _
    """
    return _f_reaction(_f_reaction_rev(s)) == s


def _sid_reaction(s: str) -> bool:
    """
    pre: len(s) <= 5 and len(s) >= 1
    post: _
    """
    out = _f_reaction_rev(s)
    return all(("a" <= ch <= "z") or ("A" <= ch <= "Z") or ("0" <= ch <= "9") or ch == "_" for ch in out) and not ("0" <= out[0] <= "9")


def _sid_gene(s: str) -> bool:
    """
    pre: len(s) <= 5 and len(s) >= 1
    post: _
    """
    out = _f_gene_rev(s)
    return all(("a" <= ch <= "z") or ("A" <= ch <= "Z") or ("0" <= ch <= "9") or ch == "_" for ch in out) and not ("0" <= out[0] <= "9")


def _twin_reachable(s: str) -> bool:
    """
    pre: len(s) <= 5 and len(s) >= 1 and "_" not in s
    post: False
    """
    return _f_reaction(_f_reaction_rev(s)) == s
