"""C09 - pFBA, linear MOMA and ROOM solve their documented secondary problems optimally.

Real code executed: pfba, add_pfba, fix_objective_as_constraint, moma, add_moma(linear=True),
add_absolute_expression, get_solution, Reaction.knock_out, contexts - on the LP contract stub.
Oracle: lpspec LPs with |.| auxiliaries built from the Python objects, own KKT certificates.
"""
from fractions import Fraction

import z3
from cobra.exceptions import OptimizationError
from cobra.flux_analysis import moma, pfba, room

from vlib import env, networks
from vlib.lpspec import add_abs, exists_point, fba_lp
from vlib.observe import observe, same
from vlib.runner import H
from vlib.vsym import lift, rv

PID = "C09"

QUICK_T = (("T1", None), ("T2", 3), ("T3", 2), ("T7", 3))


SOLVED_BEFORE = [False]


def _model(E, templates):
    env.for_path(E)
    tid, w = E.pick("template", templates)
    m = networks.build(tid)
    t = networks.T[tid]
    obj = t["objectives"][E.choice("objective", len(t["objectives"]))]
    direction = E.pick("direction", ["max", "min"])
    ids = [r.id for r in m.reactions]
    if SOLVED_BEFORE[0]:
        # the solver holds status 'optimal' and a primal solution of the model as it was before the bounds below
        m.objective = {m.reactions.get_by_id(r): c for r, c in obj.items()}
        m.optimize()
        if SOLVED_BEFORE[0] == "fixed":
            # ... and the helper constraint of an earlier fix_objective_as_constraint call (outside any context) is still
            # there, fixed at the optimum of the model as it was then; pfba / moma replace it by their own of the same name
            from cobra.util.solver import fix_objective_as_constraint
            m.objective_direction = direction
            fix_objective_as_constraint(m)
            if E.flag("objective_edited_in_place_afterwards"):
                # the same objective object (same name) with other coefficients: pfba must fix *this* objective
                obj = {r: 2 * c for r, c in obj.items()}
                for r, c in obj.items():
                    m.reactions.get_by_id(r).objective_coefficient = c
    networks.symbolic_bounds(E, m, which=(ids if w is None else ids[:w]))
    E.note(template=tid, objective=obj, direction=direction)
    return m, obj, direction, ids


def _feasible_obligations(E, m, fluxes, label):
    for met in m.metabolites:
        tot = rv(0)
        for r in met.reactions:
            tot = tot + lift(r._metabolites[met]) * lift(fluxes[r.id])
        E.prove(E.eq(tot, 0), label + ":steady-state", met=met.id)
    for r in m.reactions:
        E.prove(E.all_of([E.le(r.lower_bound, fluxes[r.id]), E.le(fluxes[r.id], r.upper_bound)]),
                label + ":in-bounds", reaction=r.id)


def _sum_abs(fluxes, ids, ref=None):
    tot = rv(0)
    for i in ids:
        t = lift(fluxes[i]) - (lift(ref[i]) if ref is not None else 0)
        tot = tot + z3.If(t >= 0, t, -t)
    return tot


def c09_pfba(E, templates=QUICK_T, fractions=(1, Fraction(1, 2), 0)):
    m, obj, direction, ids = _model(E, templates)
    fraction = E.pick("fraction", fractions)
    how = E.pick("objective_arg", ["model.objective", "objective=dict"])
    sub = E.pick("reactions", ["None", "objects", "ids"])
    objd = {m.reactions.get_by_id(r): c for r, c in obj.items()}
    if SOLVED_BEFORE[0] == "fixed":
        arg_obj = None          # the objective object (and its name) stay the ones the earlier helper constraint was made for
    elif how == "model.objective":
        m.objective = objd
        arg_obj = None
    else:
        m.objective = {m.reactions[0]: 1}          # something else; objective= must take over
        arg_obj = objd
    m.objective_direction = direction
    E.note(fraction=str(fraction), objective_arg=how, reactions=sub)
    req = None if sub == "None" else ([m.reactions[1], m.reactions[0]] if sub == "objects" else [ids[-1]])
    req_ids = ids if req is None else [getattr(r, "id", r) for r in req]
    lp = fba_lp(m)
    status, opt, _, _ = lp.optimum(E, obj, direction, name="oracle")
    wrong_sign = False
    if status == "optimal" and fraction != 1:
        # an optimum of the other sign makes "objective at or beyond fraction x optimum" unsatisfiable: the secondary problem has
        # no solution and the call has to say so (it raises) instead of handing back numbers (sixth seed round)
        wrong_sign = E.flag("optimum_has_the_other_sign")
        if wrong_sign:
            E.assume(opt < 0 if direction == "max" else opt > 0)
        else:
            E.assume(opt >= 0 if direction == "max" else opt <= 0)
    before = observe(m)
    try:
        sol = pfba(m, fraction_of_optimum=float(fraction) if fraction in (0, 1) else fraction, objective=arg_obj,
                   reactions=req)
        raised = None
    except OptimizationError as e:
        sol, raised = None, e
    if arg_obj is None:
        same(E, before, observe(m), "model-unchanged", what="pfba")
    if status != "optimal":
        E.prove(raised is not None, "raises-when-no-optimum", oracle=status)
        return
    if wrong_sign:
        E.prove(raised is not None, "raises-when-the-secondary-problem-has-no-solution", fraction=str(fraction),
                got=None if sol is None else sol.status)
        return
    E.prove(raised is None and sol is not None and sol.status == "optimal", "optimal-on-feasible-model", got=repr(raised))
    if sol is None:
        return
    E.prove(list(sol.fluxes.index) == req_ids, "index=requested-reactions")
    frac = rv(Fraction(fraction))
    lp2 = fba_lp(m, tag="pf")
    lp2.add_row("keep_objective", obj, *((frac * opt, None) if direction == "max" else (None, frac * opt)))
    aux = add_abs(lp2, ids)
    st2, tot, _, _ = lp2.optimum(E, {a: 1 for a in aux.values()}, "min", name="oracle_pfba")
    E.prove(st2 == "optimal", "oracle-consistent")
    if st2 != "optimal":
        return
    E.prove(E.eq(sol.objective_value, tot), "objective_value=minimal-total-flux")
    if req is None:
        _feasible_obligations(E, m, sol.fluxes, "pfba")
        cv = rv(0)
        for r, c in obj.items():
            cv = cv + lift(c) * lift(sol.fluxes[r])
        E.prove((cv >= frac * opt) if direction == "max" else (cv <= frac * opt), "objective-kept-at-fraction") \
            if E.symbolic else E.prove(E.ge(cv, frac * opt) if direction == "max" else E.le(cv, frac * opt),
                                       "objective-kept-at-fraction")
        E.prove(E.eq(_sum_abs(sol.fluxes, ids), tot), "total-flux-minimal")
        E.prove(E.eq(sol.objective_value, _sum_abs(sol.fluxes, ids)), "objective_value=sum|v|")


def c09_moma(E, templates=(("T1", None), ("T2", 2), ("T3", 2))):
    m, obj, direction, ids = _model(E, templates)
    m.objective = {m.reactions.get_by_id(r): c for r, c in obj.items()}
    m.objective_direction = direction
    refkind = E.pick("reference", ["given-pfba-of-wild-type", "given-fba-of-wild-type", "given-pfba-other-order",
                                   "default"])
    try:
        if refkind == "default":
            ref = None
        elif refkind == "given-pfba-of-wild-type":
            ref = pfba(m)
        elif refkind == "given-pfba-other-order":
            ref = pfba(m, reactions=list(reversed(m.reactions)))      # same fluxes, indexed in another order
        else:
            ref = m.optimize()
    except OptimizationError:
        return
    if ref is not None and ref.status != "optimal":
        return
    ko = E.choice("knock_out", len(ids) + 1, ids + ["none"])
    how = "bounds"
    if ko < len(ids):
        how = E.pick("knock_out_by", ["bounds", "remove_reactions"])
        if how == "bounds":
            m.reactions.get_by_id(ids[ko]).knock_out()
        else:
            m.remove_reactions([m.reactions.get_by_id(ids[ko])])
            ids = [i for i in ids if i != ids[ko]]
    E.note(reference=refkind, knocked=([r.id for r in m.reactions] + ["none"])[min(ko, len(m.reactions))] if how == "bounds"
           else "removed", knock_out_by=how)
    lp = fba_lp(m, tag="ko")
    if ref is not None:
        dist = {}
        for r in ids:
            a = "dist_" + r
            lp.add_var(a, 0, None)
            lp.add_row(a + "_p", {a: 1, r: -1}, -ref.fluxes[r], None)     # a >= v - ref
            lp.add_row(a + "_n", {a: 1, r: 1}, ref.fluxes[r], None)       # a >= ref - v
            dist[r] = a
        status, best, _, _ = lp.optimum(E, {a: 1 for a in dist.values()}, "min", name="oracle_moma")
    else:
        status, best, _, _ = lp.optimum(E, {r: c for r, c in obj.items() if r in ids}, direction,
                                        name="oracle_ko")            # feasibility + boundedness of the base
        best = rv(0) if status == "optimal" else None
    before = observe(m)
    try:
        sol = moma(m, solution=ref, linear=True)
        raised = None
    except OptimizationError as e:
        sol, raised = None, e
    same(E, before, observe(m), "model-unchanged", what="moma")
    if status != "optimal":
        E.prove(raised is not None or sol.status != "optimal", "not-optimal-when-knocked-out-model-infeasible",
                oracle=status)
        return
    E.prove(raised is None and sol is not None and sol.status == "optimal", "optimal-on-feasible-model", got=repr(raised))
    if sol is None or sol.status != "optimal":
        return
    _feasible_obligations(E, m, sol.fluxes, "moma")
    E.prove(E.eq(sol.objective_value, best), "objective_value=minimal-distance")
    if ref is not None:
        E.prove(E.eq(_sum_abs(sol.fluxes, ids, ref.fluxes), best), "distance-minimal")


ROOM_REFS = {      # concrete steady-state reference distributions (net fluxes in reaction order) per template
    "T1": [(-10, 10, 10), (-4, 4, 4), (0, 0, 0)],
    "T2": [(-10, 10, 0, 10), (-10, 4, 6, 10), (-3, 0, 3, 3)],
    "T3": [(-10, 10, 0, 0, 10), (-6, 4, 2, 4, 6)],
}


def c09_room(E, templates=(("T1", 2),), directions=("max",), symbolic_reference=False, linear=False):
    """ROOM (MILP variant) on the MILP contract of the stub: binary y_i enumerated inside the formula.
    Oracle: the count of reactions whose flux leaves the documented band [w - delta|w| - eps, w + delta|w| + eps]
    around the reference is minimal over all flux distributions of the (knocked-out) model."""
    env.for_path(E)
    tid, w = E.pick("template", templates)
    m = networks.build(tid)
    t = networks.T[tid]
    obj = t["objectives"][0]
    direction = E.pick("direction", list(directions))
    ids = [r.id for r in m.reactions]
    m.objective = {m.reactions.get_by_id(r): c for r, c in obj.items()}
    m.objective_direction = direction
    delta, eps = E.pick("delta_epsilon", [(0.03, 1e-3), (0.25, 0.5)])
    import cobra
    cfg = cobra.Configuration()
    old_cfg = cfg.bounds
    cfg.bounds = E.pick("config_bounds", [(-1000.0, 1000.0), (-5.0, 5.0)])    # configured defaults narrower than the model's bounds
    try:
        return _room_body(E, m, tid, w, ids, direction, delta, eps, symbolic_reference, linear)
    finally:
        cfg.bounds = old_cfg


def _room_body(E, m, tid, w, ids, direction, delta, eps, symbolic_reference, linear):
    if symbolic_reference:
        # reference = pFBA of the wild type with symbolic bounds, taken from the stub (symbolic fluxes); the knock-out follows
        networks.symbolic_bounds(E, m, which=ids[:w])
        try:
            wt = pfba(m)
        except OptimizationError:
            return
        if wt.status != "optimal":
            return
        refkind = "pfba-of-wild-type(symbolic)"
    else:
        # reference = a concrete steady-state distribution; the bounds of the model ROOM is applied to are symbolic
        k = E.choice("reference", len(ROOM_REFS[tid]))
        vec = ROOM_REFS[tid][k]
        import pandas as pd
        from cobra import Solution
        wt = Solution(objective_value=10.0, status="optimal", fluxes=pd.Series(dict(zip(ids, [float(x) for x in vec]))))
        refkind = "concrete:%s" % (vec,)
        networks.symbolic_bounds(E, m, which=ids[:w])
    ko = E.choice("knock_out", len(ids) + 1, ids + ["none"])
    if ko < len(ids):
        m.reactions.get_by_id(ids[ko]).knock_out()
    E.note(template=tid, direction=direction, reference=refkind, delta=delta, epsilon=eps, knocked=(ids + ["none"])[ko])
    lp = fba_lp(m, tag="ko")
    feasible = exists_point(E, lp, "oracle_knocked_out_feasible", tag="ko_any")
    before = observe(m)
    try:
        sol = room(m, solution=wt, linear=False, delta=delta, epsilon=eps)
        raised = None
    except OptimizationError as e:
        sol, raised = None, e
    same(E, before, observe(m), "model-unchanged", what="room")
    if not feasible:
        E.prove(raised is not None or sol.status != "optimal", "not-optimal-when-knocked-out-model-infeasible")
        return
    E.prove(raised is None and sol is not None and sol.status == "optimal", "optimal-on-feasible-model", got=repr(raised))
    if sol is None or sol.status != "optimal":
        return
    _feasible_obligations(E, m, sol.fluxes, "room")
    # the band edges are computed by add_room in float arithmetic (concrete reference): they differ from the exact
    # rational edges by rounding, so a flux within 1e-9 of an edge may count either way (1e-6 on GLPK replays)
    tol = rv(Fraction(1, 10 ** 9)) if E.symbolic else rv(Fraction(1, 10 ** 6))

    def band(rid):
        ref = lift(wt.fluxes[rid])
        aref = z3.If(ref >= 0, ref, -ref)
        return (ref - rv(Fraction(delta)) * aref - rv(Fraction(eps)), ref + rv(Fraction(delta)) * aref + rv(Fraction(eps)))

    def count(point, margin):
        """number of reactions whose flux is outside the band by more than margin (negative: inside by less than)"""
        tot = rv(0)
        for rid in ids:
            wl, wu = band(rid)
            v = lift(point[rid])
            tot = tot + z3.If(z3.Or(v > wu + margin, v < wl - margin), rv(1), rv(0))
        return tot

    lo, hi = count(sol.fluxes, tol), count(sol.fluxes, -tol)
    E.prove(z3.And(lift(sol.objective_value) >= lo - tol, lift(sol.objective_value) <= hi + tol),
            "objective_value=number-of-significant-changes")
    v = lp.fresh_point(E, "fewer")
    E.prove(z3.Not(z3.And(lp.feasible(v), count(v, -tol) < lo)), "number-of-significant-changes-minimal")


ROOM_LINEAR_BOUNDS = {     # concrete bound vectors (reaction order); None = the template's own
    "T1": [None, ((-10, 0), (0, 6), (0, 10)), ((-8, 8), (2, 10), (0, 10))],
    "T2": [None, ((-10, 0), (0, 4), (0, 10), (0, 10)), ((-10, 10), (1, 10), (0, 3), (0, 8))],
}


def c09_room_linear(E):
    """linear ROOM: every coefficient of the relaxed problem is a product bound x switch, so the model and the reference are
    concrete here (choices) and the solver quantifies over every optimal solution the LP contract admits.  Oracle: the
    documented relaxed problem (0 <= y_i <= 1, delta = epsilon = 0) built from the Python objects with its own KKT system."""
    env.for_path(E)
    tid = E.pick("template", ["T1", "T2"])
    m = networks.build(tid)
    ids = [r.id for r in m.reactions]
    bv = ROOM_LINEAR_BOUNDS[tid][E.choice("bounds", len(ROOM_LINEAR_BOUNDS[tid]))]
    if bv is not None:
        for r, b in zip(m.reactions, bv):
            r.bounds = b
    m.objective = {m.reactions.get_by_id(r): c for r, c in networks.T[tid]["objectives"][0].items()}
    vec = ROOM_REFS[tid][E.choice("reference", len(ROOM_REFS[tid]))]
    import pandas as pd
    from cobra import Solution
    wt = Solution(objective_value=10.0, status="optimal", fluxes=pd.Series(dict(zip(ids, [float(x) for x in vec]))))
    ko = E.choice("knock_out", len(ids) + 1, ids + ["none"])
    if ko < len(ids):
        m.reactions.get_by_id(ids[ko]).knock_out()
    E.note(template=tid, bounds=str(bv), reference=str(vec), knocked=(ids + ["none"])[ko])
    lp = fba_lp(m, tag="lroom")
    ys = {}
    for r in m.reactions:
        y = "y_" + r.id
        lp.add_var(y, 0, 1)
        ys[r.id] = y
        wref = vec[ids.index(r.id)]
        lp.add_row("up_" + r.id, {r.id: 1, y: -(r.upper_bound - wref)}, None, wref)
        lp.add_row("lo_" + r.id, {r.id: 1, y: -(r.lower_bound - wref)}, wref, None)
    status, best, _, _ = lp.optimum(E, {y: 1 for y in ys.values()}, "min", name="oracle_linear_room")
    before = observe(m)
    try:
        sol = room(m, solution=wt, linear=True)
        raised = None
    except OptimizationError as e:
        sol, raised = None, e
    same(E, before, observe(m), "model-unchanged", what="room(linear)")
    if status != "optimal":
        E.prove(raised is not None or sol.status != "optimal", "not-optimal-when-knocked-out-model-infeasible")
        return
    E.prove(raised is None and sol is not None and sol.status == "optimal", "optimal-on-feasible-model", got=repr(raised))
    if sol is None or sol.status != "optimal":
        return
    _feasible_obligations(E, m, sol.fluxes, "room-linear")
    E.prove(E.eq(sol.objective_value, best), "objective_value=minimal-relaxed-sum")
    # the returned fluxes attain it: smallest switches compatible with them
    tot = rv(0)
    for r in m.reactions:
        wref = rv(Fraction(vec[ids.index(r.id)]))
        v = lift(sol.fluxes[r.id])
        up, lo = lift(r.upper_bound) - wref, lift(r.lower_bound) - wref
        need_u = z3.If(v > wref, (v - wref) / up, rv(0)) if not _is0(r.upper_bound - vec[ids.index(r.id)]) else rv(0)
        need_l = z3.If(v < wref, (v - wref) / lo, rv(0)) if not _is0(r.lower_bound - vec[ids.index(r.id)]) else rv(0)
        tot = tot + z3.If(need_u >= need_l, need_u, need_l)
    E.prove(E.eq(tot, best), "relaxed-sum-at-returned-fluxes-minimal")


def _is0(x):
    return abs(float(x)) < 1e-12


def c09_solved_before(E):
    SOLVED_BEFORE[0] = E.pick("earlier", [True, "fixed"])
    try:
        if SOLVED_BEFORE[0] is True and E.flag("moma"):
            return c09_moma(E, templates=(("T2", 2), ("T3", 2)))
        return c09_pfba(E, templates=(("T2", 2), ("T3", 2)), fractions=(1, Fraction(1, 2)))
    finally:
        SOLVED_BEFORE[0] = False


def c09_pfba_thorough(E):
    return c09_pfba(E, templates=(("T1", None), ("T2", None), ("T3", None), ("T4", 4), ("T7", None)),
                    fractions=(1, Fraction(9, 10), Fraction(1, 2), 0))


def c09_moma_thorough(E):
    return c09_moma(E, templates=(("T1", None), ("T2", None), ("T3", 4), ("T7", 3)))


HARNESSES = [
    H("c09_pfba", c09_pfba, tiers=("quick",), quick=dict(max_paths=12000, time_budget=70),
      bounds="T1 all bounds symbolic, T2/T7 first 3, T3 first 2; objective via model or objective= ; max/min; fraction {1,1/2,0} "
             "(optimum sign assumed for fraction<1); reactions None/objects/ids"),
    H("c09_moma", c09_moma, tiers=("quick",), quick=dict(max_paths=8000, time_budget=70),
      bounds="T1 all, T2 and T3 first 2 symbolic; reference: pFBA or FBA solution of the wild type (symbolic, from the "
             "stub) or default; one reaction (every choice, or none) knocked out after the reference was taken"),
    H("c09_room", c09_room, quick=dict(max_paths=6000, time_budget=70), thorough=dict(max_paths=100000, time_budget=200),
      bounds="ROOM, MILP variant, on the MILP contract (one binary per reaction: T1 8, T2 16 assignments enumerated in the "
             "formula); first 2 reactions' bounds symbolic; reference = pFBA of the wild type (symbolic, from the stub) or "
             "default; one reaction (every choice, or none) knocked out; (delta,epsilon) in {(0.03,1e-3),(0.25,0.5)}; direction max"),
    H("c09_room_wide", lambda E: c09_room(E, templates=(("T1", 3), ("T2", 2))), tiers=("thorough",),
      thorough=dict(max_paths=200000, time_budget=300),
      bounds="ROOM (MILP) on T1 with all bounds symbolic and T2 (4 binaries, 16 assignments) with 2 symbolic reactions"),
    H("c09_room_symbolic_reference", lambda E: c09_room(E, templates=(("T1", 1),), symbolic_reference=True), tiers=("thorough",),
      thorough=dict(max_paths=100000, time_budget=200),
      bounds="ROOM (MILP) on T1, reference = pFBA of the wild type taken from the stub (symbolic fluxes), one symbolic reaction, "
             "then one knock-out"),
    H("c09_room_linear", c09_room_linear, quick=dict(max_paths=2000, time_budget=40), thorough=dict(max_paths=20000, time_budget=200),
      witness_every=1,
      bounds="ROOM, linear variant: T1/T2 with 3 concrete bound vectors each x 3 concrete references x every knock-out; the solver "
             "quantifies over every optimal solution of the LP contract (coefficients bound x switch make symbolic bounds bilinear)"),
    H("c09_solved_before", c09_solved_before, quick=dict(max_paths=6000, time_budget=45), thorough=dict(max_paths=6000, time_budget=100),
      bounds="pfba and linear moma on T2/T3 with 2 symbolic reactions when the model was optimised before its bounds were set "
             "(solver still 'optimal' on the old problem)"),
    H("c09_pfba_thorough", c09_pfba_thorough, tiers=("thorough",), thorough=dict(max_paths=400000, time_budget=400),
      bounds="T1,T2,T3,T7 all symbolic, T4 first 4; fractions {1,9/10,1/2,0}"),
    H("c09_moma_thorough", c09_moma_thorough, tiers=("thorough",), thorough=dict(max_paths=200000, time_budget=400),
      bounds="T1,T2 all, T3 first 4, T7 first 3 symbolic"),
]
