"""C09 - pFBA and linear MOMA solve their documented secondary problems optimally (ROOM: not applicable).

Real code executed: pfba, add_pfba, fix_objective_as_constraint, moma, add_moma(linear=True),
add_absolute_expression, get_solution, Reaction.knock_out, contexts - on the LP contract stub.
Oracle: lpspec LPs with |.| auxiliaries built from the Python objects, own KKT certificates.
"""
from fractions import Fraction

import z3
from cobra.exceptions import OptimizationError
from cobra.flux_analysis import moma, pfba

from vlib import env, networks
from vlib.lpspec import add_abs, fba_lp
from vlib.observe import observe, same
from vlib.runner import H
from vlib.vsym import lift, rv

PID = "C09"

QUICK_T = (("T1", None), ("T2", 3), ("T3", 2), ("T7", 3))


SOLVED_BEFORE = [False]


def _model(E, templates):
    env.for_path(E)
    tid, w = E.pick("template", templates)
    m = networks.build(tid)
    t = networks.T[tid]
    obj = t["objectives"][E.choice("objective", len(t["objectives"]))]
    direction = E.pick("direction", ["max", "min"])
    ids = [r.id for r in m.reactions]
    if SOLVED_BEFORE[0]:
        # the solver holds status 'optimal' and a primal solution of the model as it was before the bounds below
        m.objective = {m.reactions.get_by_id(r): c for r, c in obj.items()}
        m.optimize()
    networks.symbolic_bounds(E, m, which=(ids if w is None else ids[:w]))
    E.note(template=tid, objective=obj, direction=direction)
    return m, obj, direction, ids


def _feasible_obligations(E, m, fluxes, label):
    for met in m.metabolites:
        tot = rv(0)
        for r in met.reactions:
            tot = tot + lift(r._metabolites[met]) * lift(fluxes[r.id])
        E.prove(E.eq(tot, 0), label + ":steady-state", met=met.id)
    for r in m.reactions:
        E.prove(E.all_of([E.le(r.lower_bound, fluxes[r.id]), E.le(fluxes[r.id], r.upper_bound)]),
                label + ":in-bounds", reaction=r.id)


def _sum_abs(fluxes, ids, ref=None):
    tot = rv(0)
    for i in ids:
        t = lift(fluxes[i]) - (lift(ref[i]) if ref is not None else 0)
        tot = tot + z3.If(t >= 0, t, -t)
    return tot


def c09_pfba(E, templates=QUICK_T, fractions=(1, Fraction(1, 2), 0)):
    m, obj, direction, ids = _model(E, templates)
    fraction = E.pick("fraction", fractions)
    how = E.pick("objective_arg", ["model.objective", "objective=dict"])
    sub = E.pick("reactions", ["None", "objects", "ids"])
    objd = {m.reactions.get_by_id(r): c for r, c in obj.items()}
    if how == "model.objective":
        m.objective = objd
        arg_obj = None
    else:
        m.objective = {m.reactions[0]: 1}          # something else; objective= must take over
        arg_obj = objd
    m.objective_direction = direction
    E.note(fraction=str(fraction), objective_arg=how, reactions=sub)
    req = None if sub == "None" else ([m.reactions[1], m.reactions[0]] if sub == "objects" else [ids[-1]])
    req_ids = ids if req is None else [getattr(r, "id", r) for r in req]
    lp = fba_lp(m)
    status, opt, _, _ = lp.optimum(E, obj, direction, name="oracle")
    if status == "optimal" and fraction != 1:
        E.assume(opt >= 0 if direction == "max" else opt <= 0)
    before = observe(m)
    try:
        sol = pfba(m, fraction_of_optimum=float(fraction) if fraction in (0, 1) else fraction, objective=arg_obj,
                   reactions=req)
        raised = None
    except OptimizationError as e:
        sol, raised = None, e
    if arg_obj is None:
        same(E, before, observe(m), "model-unchanged", what="pfba")
    if status != "optimal":
        E.prove(raised is not None, "raises-when-no-optimum", oracle=status)
        return
    E.prove(raised is None and sol is not None and sol.status == "optimal", "optimal-on-feasible-model", got=repr(raised))
    if sol is None:
        return
    E.prove(list(sol.fluxes.index) == req_ids, "index=requested-reactions")
    frac = rv(Fraction(fraction))
    lp2 = fba_lp(m, tag="pf")
    lp2.add_row("keep_objective", obj, *((frac * opt, None) if direction == "max" else (None, frac * opt)))
    aux = add_abs(lp2, ids)
    st2, tot, _, _ = lp2.optimum(E, {a: 1 for a in aux.values()}, "min", name="oracle_pfba")
    E.prove(st2 == "optimal", "oracle-consistent")
    if st2 != "optimal":
        return
    E.prove(E.eq(sol.objective_value, tot), "objective_value=minimal-total-flux")
    if req is None:
        _feasible_obligations(E, m, sol.fluxes, "pfba")
        cv = rv(0)
        for r, c in obj.items():
            cv = cv + lift(c) * lift(sol.fluxes[r])
        E.prove((cv >= frac * opt) if direction == "max" else (cv <= frac * opt), "objective-kept-at-fraction") \
            if E.symbolic else E.prove(E.ge(cv, frac * opt) if direction == "max" else E.le(cv, frac * opt),
                                       "objective-kept-at-fraction")
        E.prove(E.eq(_sum_abs(sol.fluxes, ids), tot), "total-flux-minimal")
        E.prove(E.eq(sol.objective_value, _sum_abs(sol.fluxes, ids)), "objective_value=sum|v|")


def c09_moma(E, templates=(("T1", None), ("T2", 2), ("T3", 2))):
    m, obj, direction, ids = _model(E, templates)
    m.objective = {m.reactions.get_by_id(r): c for r, c in obj.items()}
    m.objective_direction = direction
    refkind = E.pick("reference", ["given-pfba-of-wild-type", "given-fba-of-wild-type", "given-pfba-other-order",
                                   "default"])
    try:
        if refkind == "default":
            ref = None
        elif refkind == "given-pfba-of-wild-type":
            ref = pfba(m)
        elif refkind == "given-pfba-other-order":
            ref = pfba(m, reactions=list(reversed(m.reactions)))      # same fluxes, indexed in another order
        else:
            ref = m.optimize()
    except OptimizationError:
        return
    if ref is not None and ref.status != "optimal":
        return
    ko = E.choice("knock_out", len(ids) + 1, ids + ["none"])
    how = "bounds"
    if ko < len(ids):
        how = E.pick("knock_out_by", ["bounds", "remove_reactions"])
        if how == "bounds":
            m.reactions.get_by_id(ids[ko]).knock_out()
        else:
            m.remove_reactions([m.reactions.get_by_id(ids[ko])])
            ids = [i for i in ids if i != ids[ko]]
    E.note(reference=refkind, knocked=([r.id for r in m.reactions] + ["none"])[min(ko, len(m.reactions))] if how == "bounds"
           else "removed", knock_out_by=how)
    lp = fba_lp(m, tag="ko")
    if ref is not None:
        dist = {}
        for r in ids:
            a = "dist_" + r
            lp.add_var(a, 0, None)
            lp.add_row(a + "_p", {a: 1, r: -1}, -ref.fluxes[r], None)     # a >= v - ref
            lp.add_row(a + "_n", {a: 1, r: 1}, ref.fluxes[r], None)       # a >= ref - v
            dist[r] = a
        status, best, _, _ = lp.optimum(E, {a: 1 for a in dist.values()}, "min", name="oracle_moma")
    else:
        status, best, _, _ = lp.optimum(E, {r: c for r, c in obj.items() if r in ids}, direction,
                                        name="oracle_ko")            # feasibility + boundedness of the base
        best = rv(0) if status == "optimal" else None
    before = observe(m)
    try:
        sol = moma(m, solution=ref, linear=True)
        raised = None
    except OptimizationError as e:
        sol, raised = None, e
    same(E, before, observe(m), "model-unchanged", what="moma")
    if status != "optimal":
        E.prove(raised is not None or sol.status != "optimal", "not-optimal-when-knocked-out-model-infeasible",
                oracle=status)
        return
    E.prove(raised is None and sol is not None and sol.status == "optimal", "optimal-on-feasible-model", got=repr(raised))
    if sol is None or sol.status != "optimal":
        return
    _feasible_obligations(E, m, sol.fluxes, "moma")
    E.prove(E.eq(sol.objective_value, best), "objective_value=minimal-distance")
    if ref is not None:
        E.prove(E.eq(_sum_abs(sol.fluxes, ids, ref.fluxes), best), "distance-minimal")


def c09_solved_before(E):
    SOLVED_BEFORE[0] = True
    try:
        if E.flag("moma"):
            return c09_moma(E, templates=(("T2", 2), ("T3", 2)))
        return c09_pfba(E, templates=(("T2", 2), ("T3", 2)), fractions=(1, Fraction(1, 2)))
    finally:
        SOLVED_BEFORE[0] = False


def c09_pfba_thorough(E):
    return c09_pfba(E, templates=(("T1", None), ("T2", None), ("T3", None), ("T4", 4), ("T7", None)),
                    fractions=(1, Fraction(9, 10), Fraction(1, 2), 0))


def c09_moma_thorough(E):
    return c09_moma(E, templates=(("T1", None), ("T2", None), ("T3", 4), ("T7", 3)))


HARNESSES = [
    H("c09_pfba", c09_pfba, tiers=("quick",), quick=dict(max_paths=12000, time_budget=70),
      bounds="T1 all bounds symbolic, T2/T7 first 3, T3 first 2; objective via model or objective= ; max/min; fraction {1,1/2,0} "
             "(optimum sign assumed for fraction<1); reactions None/objects/ids"),
    H("c09_moma", c09_moma, tiers=("quick",), quick=dict(max_paths=8000, time_budget=70),
      bounds="T1 all, T2 and T3 first 2 symbolic; reference: pFBA or FBA solution of the wild type (symbolic, from the "
             "stub) or default; one reaction (every choice, or none) knocked out after the reference was taken"),
    H("c09_solved_before", c09_solved_before, quick=dict(max_paths=6000, time_budget=45), thorough=dict(max_paths=6000, time_budget=100),
      bounds="pfba and linear moma on T2/T3 with 2 symbolic reactions when the model was optimised before its bounds were set "
             "(solver still 'optimal' on the old problem)"),
    H("c09_pfba_thorough", c09_pfba_thorough, tiers=("thorough",), thorough=dict(max_paths=400000, time_budget=500),
      bounds="T1,T2,T3,T7 all symbolic, T4 first 4; fractions {1,9/10,1/2,0}"),
    H("c09_moma_thorough", c09_moma_thorough, tiers=("thorough",), thorough=dict(max_paths=200000, time_budget=500),
      bounds="T1,T2 all, T3 first 4, T7 first 3 symbolic"),
]
