"""C14 - results do not depend on process count, scheduling or item order (OptGP sentence: not applicable).

Real code executed: the processes>1 branches of flux_variability_analysis and _multi_deletion, the worker
functions _init_worker / _fva_step / _reaction_deletion_worker / _gene_deletion_worker, chunk-size arithmetic
and result collection - with cobra's ProcessPool replaced by the nondeterministic in-process pool of
vlib/pool_stub.py: which worker takes which chunk and the completion order are symbolic choices, all explored.
Obligations: for every schedule the values equal, item by item, those of the serial run on the same path
(proved for all bounds: uniquely defined LP optima), for every permutation of the requested item list; the
worker's model is unchanged after every task; the caller's model is unchanged.
"""
import itertools
import math

import cobra.flux_analysis.deletion as _del
import cobra.flux_analysis.variability as _var
from cobra.flux_analysis import (double_gene_deletion, double_reaction_deletion, flux_variability_analysis,
                                 single_gene_deletion, single_reaction_deletion)

from vlib import env, networks, pool_stub
from vlib.observe import observe, same
from vlib.runner import H

PID = "C14"


def _install_pool(E):
    # also on concrete replays: the recorded schedule is replayed on the real cobra code and real GLPK inside
    # the same in-process pool (worker models stay observable); the operating system's scheduler is not exercised
    env._rebind(_var, "ProcessPool", pool_stub.StubPool)
    env._rebind(_del, "ProcessPool", pool_stub.StubPool)


def _nan(x):
    return isinstance(x, float) and math.isnan(x)


def _inf(x):
    return isinstance(x, float) and math.isinf(x)


def c14_fva(E, procs=(2,), templates=(("T2", ("EX_A",)),), nitems=2):
    env.for_path(E)
    _install_pool(E)
    tid, which = E.pick("template", templates)
    m = networks.build(tid)
    networks.symbolic_bounds(E, m, which=list(which))
    m.objective = {m.reactions.get_by_id(r): c for r, c in networks.T[tid]["objectives"][0].items()}
    if tid == "T2" and E.flag("cycle_without_bounds"):
        # R1 forwards with R2 backwards is a cycle no bound limits: the extreme of R1 is infinite.  The unchanged code refuses
        # (OptimizationError) whatever the order; code that answers must answer the same in every order (sixth seed round)
        m.reactions.R1.upper_bound = float("inf")
        m.reactions.R2.lower_bound = -float("inf")
    ids = [r.id for r in m.reactions][:nitems]
    perm = list(E.pick("item_order", list(itertools.permutations(ids))[:: max(1, math.factorial(len(ids)) // 3)]))
    p = E.pick("processes", list(procs))
    E.note(template=tid, processes=p, order=perm)
    before = observe(m)
    try:
        serial = flux_variability_analysis(m, reaction_list=ids, processes=1)
    except Exception:
        return          # infeasible instance: C05's business
    try:
        par = flux_variability_analysis(m, reaction_list=perm, processes=p)
    except Exception as e:
        E.prove(False, "parallel-run-succeeds-when-serial-does", exc=type(e).__name__, msg=str(e)[:200])
        return
    same(E, before, observe(m), "caller-model-unchanged", what="fva")
    E.prove(list(par.index) == perm, "index-follows-requested-order")
    if list(par.index) != perm:
        return
    for i, rid in enumerate(perm):
        for col in ("minimum", "maximum"):
            a, b = serial.at[rid, col], par[col].iloc[i]
            if _inf(a) or _inf(b):
                E.prove(_inf(a) and _inf(b) and a == b, "parallel=serial", reaction=rid, what=col, processes=p, row=i)
                continue
            E.prove((_nan(a) and _nan(b)) or E.eq(a, b), "parallel=serial", reaction=rid, what=col, processes=p, row=i)
    # asking for one item alone gives the same value
    one = ids[E.choice("single_item", len(ids), ids)]
    alone = flux_variability_analysis(m, reaction_list=[one], processes=1)
    for col in ("minimum", "maximum"):
        a, b = alone.at[one, col], par[col].iloc[perm.index(one)]
        E.prove((a == b) if (_inf(a) or _inf(b)) else E.eq(a, b), "item-alone=item-in-list", reaction=one, what=col)


def c14_deletion(E, procs=(2,)):
    env.for_path(E)
    _install_pool(E)
    m = networks.build("T8")
    which = E.pick("symbolic_reaction", ["EX_A", "DM_B"])
    networks.symbolic_bounds(E, m, which=[which])
    m.objective = "DM_B"
    entity = E.pick("entity", ["reaction", "gene"])
    double = E.flag("double")
    earlier = (not double) and E.flag("earlier_serial_call_on_other_bounds")
    pool = [r.id for r in m.reactions] if entity == "reaction" else ["g1", "g2", "g3", "g4"]
    items = pool[:3]
    perm = list(E.pick("item_order", [tuple(items), tuple(reversed(items))]))
    p = E.pick("processes", list(procs))
    if double:
        fn = double_reaction_deletion if entity == "reaction" else double_gene_deletion
    else:
        fn = single_reaction_deletion if entity == "reaction" else single_gene_deletion
    E.note(entity=entity, processes=p, order=perm, double=double, earlier_call=earlier)
    if earlier:
        # the same model object was screened before, in this process, with other bounds: nothing of that call may
        # survive into this one (serial and parallel runs start from different process states)
        fn(m, items, processes=1)
        networks.symbolic_bounds(E, m, which=[which])
    before = observe(m)
    serial = fn(m, items, processes=1)
    par = fn(m, perm, processes=p)
    same(E, before, observe(m), "caller-model-unchanged", what="deletion")
    rs = {frozenset(i): (g, s) for i, g, s in zip(serial["ids"], serial["growth"], serial["status"])}
    rp = {frozenset(i): (g, s) for i, g, s in zip(par["ids"], par["growth"], par["status"])}
    E.prove(set(rs) == set(rp) and len(par) == len(serial), "same-rows")
    for k in rs:
        if k in rp:
            (g1, s1), (g2, s2) = rs[k], rp[k]
            E.prove(s1 == s2 and ((_nan(g1) and _nan(g2)) or E.eq(g1, g2)), "parallel=serial", comb=sorted(k), processes=p)


def c14_searches(E, procs=(2,)):
    """blocked / essential searches and loopless FVA through the pool: same sets / ranges as the serial run, whatever the
    schedule and the order of the requested reactions"""
    from cobra.flux_analysis import find_blocked_reactions, find_essential_genes, find_essential_reactions
    env.for_path(E)
    _install_pool(E)
    what = E.pick("search", ["find_blocked_reactions", "find_essential_genes", "find_essential_reactions", "fva-loopless"])
    tid = "T6" if what == "find_blocked_reactions" else ("T3" if what == "fva-loopless" else "T8")
    m = networks.build(tid)
    which = {"T6": "R2", "T3": "R2", "T8": "EX_A"}[tid]
    networks.symbolic_bounds(E, m, which=[which], sign=("spans0" if tid == "T6" else None))
    m.objective = "DM_B"
    p = E.pick("processes", list(procs))
    E.note(search=what, processes=p)
    before = observe(m)

    def run(processes, order):
        if what == "find_blocked_reactions":
            rl = [m.reactions.get_by_id(i) for i in order(["R1", "R2", "DEAD"])]
            return sorted(find_blocked_reactions(m, reaction_list=rl, processes=processes))
        if what == "find_essential_genes":
            return sorted(g.id for g in find_essential_genes(m, processes=processes))
        if what == "find_essential_reactions":
            return sorted(r.id for r in find_essential_reactions(m, processes=processes))
        rl = order(["R1", "R2"])
        df = flux_variability_analysis(m, reaction_list=rl, loopless=True, processes=processes)
        return {(i, c): df.at[i, c] for i in rl for c in ("minimum", "maximum")}
    try:
        serial = run(1, lambda x: x)
    except Exception:
        return
    
    try:
        par = run(p, lambda x: list(reversed(x)) if E.flag("reversed_order") else x)
    except Exception as e:
        if (not E.symbolic) and what == "fva-loopless" and isinstance(e, ValueError) and "lower bound must be less than" in str(e):
            # float rounding inside _add_cycle_free (bounds taken from fluxes that differ in the last digits): outside every
            # claim (DESIGN 4.0); seen on a witness whose bound was 1e-8 away from another
            from vlib.vsym import Abort
            raise Abort("float rounding in loopless FVA on a numeric replay")
        E.prove(False, "parallel-run-succeeds-when-serial-does", exc=type(e).__name__, msg=str(e)[:200])
        return
    same(E, before, observe(m), "caller-model-unchanged", what=what)
    if isinstance(serial, dict):
        E.prove(set(serial) == set(par), "parallel=serial", what=what)
        # loopless ranges depend on the vertex the solver returns (C05): only plain-range containment is uniquely defined
        return
    E.prove(serial == par, "parallel=serial", what=what, serial=serial, parallel=par)


HARNESSES = [
    H("c14_searches", c14_searches, quick=dict(max_paths=6000, time_budget=60), thorough=dict(max_paths=100000, time_budget=300),
      witness_every=40,
      bounds="find_blocked_reactions (T6), find_essential_genes / find_essential_reactions (T8), loopless FVA (T3) with 2 workers on "
             "the pool stub, one symbolic reaction, requested reactions in both orders: same sets as the serial run"),
    H("c14_fva", c14_fva, tiers=("quick",), quick=dict(max_paths=6000, time_budget=80), witness_every=40,
      bounds="T2 with 1 symbolic reaction (EX_A); 2 requested reactions in both orders; 2 workers; chunking as computed by the code; "
             "every chunk->worker assignment x every completion order (both pools: minimum and maximum)"),
    H("c14_deletion", c14_deletion, tiers=("quick",), quick=dict(max_paths=12000, time_budget=100), witness_every=40,
      bounds="T8, one symbolic reaction; single and double reaction / gene deletion of 3 items in 2 orders; 2 workers; all "
             "chunk->worker assignments and completion orders"),
    H("c14_fva_thorough", lambda E: c14_fva(E, procs=(2, 3), templates=(("T2", ("EX_A", "R1", "DM_B")), ("T3", ("EX_A", "R2"))), nitems=4),
      tiers=("thorough",), thorough=dict(max_paths=400000, time_budget=500), witness_every=40,
      bounds="T2 (3 symbolic), T3 (2 symbolic); 4 items; 2 and 3 workers"),
    H("c14_deletion_thorough", lambda E: c14_deletion(E, procs=(2, 3)), tiers=("thorough",),
      thorough=dict(max_paths=200000, time_budget=400), witness_every=40, bounds="2 and 3 workers"),
]
