"""C01 - the solver always holds exactly the model's flux-balance problem.

Histories of public operations (vlib/ops.py, DESIGN appendix C) on a base model whose symbolic reaction has
symbolic stoichiometric coefficients and bounds; new numeric arguments are fresh symbolic reals; objects and
argument shapes are exhaustive choices; raising variants included.  After every step (also steps that raised)
the LP recorded by the stub is proved to be exactly the split encoding of the flux-balance problem of the
Python objects (ops.lp_equiv).  On witness replays the same obligation is evaluated on the GLPK problem read
back through optlang.
"""
import copy

from vlib import env
from vlib.ops import OPS, SUB, State, base_model, lp_equiv
from vlib.runner import H

PID = "C01"


def history(E, k, alphabet, obligations, contexts=True, sym_coef=True, with_ref=False, pattern=None):
    env.for_path(E)
    S = State()
    m = base_model(E, sym_coef=sym_coef)
    if with_ref and k == 1:
        m.objective_direction = E.pick("initial_direction", ["max", "min"])     # single steps also start from a minimising model
    if with_ref:
        from vlib.refmodel import Ref
        S.ref = Ref.from_model(m, {"R1": ("and", "g1", "g2"), "R2": ("or", "g1", "g3")})
    obligations(E, m, S, "[built]")
    names = list(alphabet) + (["enter", "exit"] if contexts else [])
    depth = []
    for step in range(k):
        if pattern is not None and pattern[step] is not None:
            name = pattern[step]
        else:
            name = E.pick("op%d" % step, names)
        if name == "enter":
            m.__enter__()
            depth.append((set(S.user_vars), set(S.user_cons), copy.deepcopy(getattr(S, "ref", None))))
            S.log.append(("enter", {}, None))
        elif name == "exit":
            if not depth:
                return
            m.__exit__(None, None, None)
            S.user_vars, S.user_cons, oldref = depth.pop()
            if oldref is not None:
                oldref.valid = oldref.valid and S.ref.valid
                S.ref = oldref
            S.log.append(("exit", {}, None))
        else:
            new = OPS[name][0](E, m, S)
            if new is not None:
                m = new
                depth = []
                if getattr(S, "ref", None) is not None:
                    S.ref.valid = False
        E.note(ops=[l[0] + ("!" + l[2] if l[2] else "") for l in S.log])
        n0 = len(E.failures)
        obligations(E, m, S, "")
        if len(E.failures) > n0:
            return m, S         # a history that has violated the property is reported once, at that step, and not continued
        if any(l[2] == "ContainerAlreadyContains" for l in S.log):
            return m, S         # solver wedged by the listed optlang pending-queue finding (every later update raises): not continued
    return m, S


def _lp(E, m, S, tag):
    E.note(_lp_only=True)       # read by ops.op_add_reactions: argument shapes whose aftermath only C01 has an opinion on
    lp_equiv(E, m, S, "lp=fba" + tag)


def c01_k1(E):
    history(E, 1, list(OPS), _lp, contexts=False)


SUB1 = SUB + ["objective"]


def c01_k2_sub(E):
    history(E, 2, SUB1, _lp, contexts=True, sym_coef=False)


def c01_k2_full(E):
    history(E, 2, list(OPS), _lp, contexts=True, sym_coef=False)


def c01_k3_sub(E):
    history(E, 3, SUB1, _lp, contexts=True, sym_coef=False)


def c01_detached(E, more=0):
    # a reaction removed inside a context, edited while detached, brought back by the exit (then `more` operations)
    history(E, 4 + more, SUB1, _lp, contexts=False, sym_coef=False,
            pattern=("enter", "remove_reactions", "detached_edit", "exit") + (None,) * more)


def c01_detached_readd(E, more=0):
    history(E, 3 + more, SUB1, _lp, contexts=False, sym_coef=False,
            pattern=("remove_reactions", "detached_edit", "add_reactions") + (None,) * more)


def c01_detached_more(E):
    if E.flag("readd"):
        c01_detached_readd(E, 1)
    else:
        c01_detached(E, 1)


HARNESSES = [
    H("c01_k1", c01_k1, quick=dict(max_paths=30000, time_budget=60), thorough=dict(max_paths=200000, time_budget=200),
      witness_every=20,
      bounds="base model (5 reactions, 3 metabolites - one used by a single reaction -, 3 genes, 1 group), reaction R1 with symbolic coefficients in [1/4,4] and "
             "bounds in [-2000,2000]; every one of the %d operations x all its argument shapes, once" % len(OPS)),
    H("c01_k2_sub", c01_k2_sub, tiers=("quick",), quick=dict(max_paths=60000, time_budget=90), witness_every=50,
      bounds="all pairs from the sub-alphabet %s + enter/exit; R1 with symbolic bounds (concrete coefficients)" % SUB1),
    H("c01_detached", c01_detached, quick=dict(max_paths=30000, time_budget=30), thorough=dict(max_paths=30000, time_budget=60),
      witness_every=20,
      bounds="enter, remove_reactions (every variant), edit of the detached reaction (bounds / knock_out / *=-1), exit"),
    H("c01_detached_readd", c01_detached_readd, quick=dict(max_paths=30000, time_budget=30),
      thorough=dict(max_paths=30000, time_budget=60), witness_every=20,
      bounds="remove_reactions, edit of the detached reaction, add_reactions (every variant incl. re-adding it)"),
    H("c01_detached_more", c01_detached_more, tiers=("thorough",), thorough=dict(max_paths=200000, time_budget=200), witness_every=200,
      bounds="the two detached-reaction histories followed by one more operation of the sub-alphabet"),
    H("c01_k2_full", c01_k2_full, tiers=("thorough",), thorough=dict(max_paths=2000000, time_budget=450), witness_every=200,
      bounds="all pairs of the full alphabet + enter/exit; R1 with symbolic bounds"),
    H("c01_k3_sub", c01_k3_sub, tiers=("thorough",), thorough=dict(max_paths=2000000, time_budget=400), witness_every=200,
      bounds="all triples from the sub-alphabet + enter/exit"),
]
