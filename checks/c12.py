"""C12 - a copy is equivalent to its original and shares nothing with it.

Real code executed: Model.copy, copy.deepcopy(model), pickle, Reaction.copy/__copy__/__deepcopy__,
Species.copy, Object.__getstate__, Reaction.__add__/__sub__/__mul__/__radd__, with groups, a user constraint
and optionally an open context at copy time - on the stub (symlp's own deep copy stands in for optlang's GLPK
text-format copy, which is covered on witness replays).
Obligations: observations equal right after copying; copy passes the cross-reference invariants (objects
distinct and owned); no mutable object is reachable from both models (allow-list: classes, Configuration,
immutables); after one edit (operation alphabet + in-place mutation of every public mutable container) on
either side the other side's observation is proved unchanged; reaction arithmetic leaves operands unchanged
and returns detached objects.
"""
import copy
import pickle

from cobra import Metabolite, Reaction

from vlib import env
from vlib.observe import observe, same
from vlib.ops import OPS, State, base_model, invariants
from vlib.runner import H
from vlib.vsym import SymReal, SymInt, SymBool

PID = "C12"
IMMUT = (str, bytes, int, float, bool, type(None), SymReal, SymInt, SymBool, frozenset, type, complex)


def reachable(model):
    """ids of mutable objects reachable through the public object graph (solver handled separately)"""
    seen = {}
    stack = [(model, "model")]
    while stack:
        o, path = stack.pop()
        if isinstance(o, IMMUT) or id(o) in seen:
            continue
        mod = type(o).__module__ or ""
        if mod.startswith(("optlang", "sympy", "vlib.symlp", "z3", "logging", "cobra.core.configuration", "cobra.core.singleton")):
            continue
        if callable(o) and not hasattr(o, "__dict__"):
            continue
        if isinstance(o, tuple):
            for i, x in enumerate(o):
                stack.append((x, path + "[%d]" % i))
            continue
        seen[id(o)] = (path, o)
        if isinstance(o, dict):
            for k, v in o.items():
                stack.append((v, "%s[%r]" % (path, k)))
                stack.append((k, "%s<key>" % path))
        elif isinstance(o, (list, set)):
            for i, x in enumerate(o):
                stack.append((x, "%s[%d]" % (path, i)))
        if hasattr(o, "__dict__"):
            for k, v in vars(o).items():
                if k in ("_solver", "_contexts"):
                    continue
                stack.append((v, "%s.%s" % (path, k)))
        for k in getattr(type(o), "__slots__", ()) if not isinstance(o, (dict, list, set)) else ():
            if hasattr(o, k):
                stack.append((getattr(o, k), "%s.%s" % (path, k)))
    return seen


def make_copy(how, m):
    if how == "Model.copy":
        return m.copy()
    if how == "deepcopy":
        return copy.deepcopy(m)
    return pickle.loads(pickle.dumps(m))


def inplace_mutations(m):
    """every public mutable container, mutated in place"""
    def f1():
        m.notes["new"] = 1
    def f2():
        m.annotation["new"] = ["x"]
    def f3():
        m.compartments = {"c": "changed"}
    def f4():
        m.reactions.R1.notes["new"] = 1
    def f5():
        m.reactions.R1.annotation["ec"].append("9.9.9.9")
    def f6():
        m.metabolites.A.notes["new"] = 1
    def f7():
        m.metabolites.A.annotation["kegg"].append("C9")
    def f8():
        m.genes.g1.notes["new"] = 1
    def f9():
        m.genes.g1.annotation["new"] = "x"
    def f10():
        m.groups.G1.add_members([m.reactions.R2])
    def f11():
        m.groups.G1.notes["new"] = 1
    def f12():
        m.metabolites.A.name = "renamed"
    def f13():
        m.reactions.R2.subsystem = "changed"
    def f14():
        m.tolerance = 1e-5
    return [("model.notes", f1), ("model.annotation", f2), ("model.compartments", f3), ("reaction.notes", f4),
            ("reaction.annotation-list", f5), ("metabolite.notes", f6), ("metabolite.annotation-list", f7), ("gene.notes", f8),
            ("gene.annotation", f9), ("group.members", f10), ("group.notes", f11), ("metabolite.name", f12),
            ("reaction.subsystem", f13), ("model.tolerance", f14)]


def c12_copy(E, edits="inplace"):
    env.for_path(E)
    S = State()
    m = base_model(E, sym_coef=(edits == "inplace"))
    m.genes.g1.annotation = {"ncbi": ["1"]}
    m.groups.G1.notes = {"g": 1}
    m.reactions.R3.gene_reaction_rule = "g3"        # a rule that is a single gene (its tree is one leaf), next to Boolean ones
    # ids are unique per container only: a metabolite named like a reaction and a group named like a gene, both
    # referenced from groups (legal in cobrapy; a copy must keep the kind of every member)
    from cobra import Metabolite
    from cobra.core import Group
    twin = Metabolite("DM_B", compartment="c")
    m.add_metabolites([twin])
    m.groups.G1.add_members([twin])
    m.add_groups([Group("g2", members=[m.reactions.R2])])
    m.groups.G1.add_members([m.genes.g2])
    uv = m.problem.Variable("uservar", lb=0, ub=5)
    uc = m.problem.Constraint(m.reactions.R1.flux_expression + uv, lb=0, ub=7, name="usercon")
    m.add_cons_vars([uv, uc])
    S.user_vars.add("uservar")
    S.user_cons.add("usercon")
    how = E.pick("copy", ["Model.copy", "deepcopy", "pickle"])
    ctx = E.flag("open_context_at_copy_time")
    if ctx:
        m.__enter__()
        m.reactions.DM_B.upper_bound = 7
    c = make_copy(how, m)
    E.note(copy=how, open_context=ctx)
    a, b = observe(m), observe(c)
    a["contexts"] = b["contexts"] = 0
    same(E, a, b, "copy=original", what=how)
    invariants(E, c, S, "copy-objects-distinct-and-owned")
    E.prove(c.solver is not m.solver and all(x is not y for x in c.variables for y in m.variables), "solver-problem-not-shared")
    ra, rb = reachable(m), reachable(c)
    shared = sorted(ra[i][0] for i in set(ra) & set(rb))
    E.prove(not shared, "no-shared-mutable-object", shared=shared[:6], what=how, n=len(shared))
    # non-interference: edit one side, the other must not change
    side = E.pick("edit_on", ["copy", "original"])
    tgt, other = (c, m) if side == "copy" else (m, c)
    before_other = observe(other)
    if edits == "inplace":
        muts = inplace_mutations(tgt)
        k = E.choice("mutation", len(muts), [n for n, _ in muts])
        E.note(edit=muts[k][0], edit_on=side)
        muts[k][1]()
    else:
        names = [n for n in OPS if n not in ("copy", "merge")]
        name = E.pick("op", names)
        E.note(edit=name, edit_on=side)
        OPS[name][0](E, tgt, State())
    same(E, before_other, observe(other), "edit-does-not-leak", what=how, edit_on=side)
    if ctx:
        # closing the context that was open at copy time must not touch the copy either
        before_c = observe(c)
        m.__exit__(None, None, None)
        same(E, before_c, observe(c), "closing-the-original's-context-does-not-touch-the-copy", what=how)


def c12_ops(E):
    return c12_copy(E, edits="ops")


def c12_after_history(E, k=1):
    """the model is copied after a history of operations (also inside the context they were made in): the copy
    equals the original, owns its objects, shares nothing, holds exactly its own flux-balance problem (C01's clause
    'after every copy/pickle'), and an in-place mutation of one side does not reach the other"""
    from vlib.ops import lp_equiv
    env.for_path(E)
    S = State()
    m = base_model(E, sym_coef=False)
    names = [n for n in OPS if n not in ("copy", "merge", "detached_edit")]
    ctx = E.flag("history_inside_open_context")
    if ctx:
        m.__enter__()
    for i in range(k):
        try:
            OPS[E.pick("pre_op%d" % i, names)][0](E, m, S)
        except Exception:
            return      # an operation failing outside its documented exceptions is C01/C02's to report (same histories)
    if getattr(S, "undocumented", None) or any(l[2] == "ContainerAlreadyContains" or (l[0] == "add_reactions" and l[2] == "ValueError")
                                               for l in S.log):
        return      # model left broken by a listed C01 finding (duplicate-named variable, half-added reaction)
    # the claim is about copies of consistent models: a history that already broke C01/C02 on the original
    # (reported by those checks; listed findings there) is not continued
    from vlib.vsym import Probe
    pr = Probe(E)
    try:
        invariants(pr, m, S, "pre")
        lp_equiv(pr, m, S, "pre")
    except Exception:
        return
    if pr.failed:
        return
    how = E.pick("copy", ["Model.copy", "deepcopy", "pickle"])
    E.note(copy=how, open_context=ctx, ops=[l[0] + ("!" + l[2] if l[2] else "") for l in S.log])
    c = make_copy(how, m)
    a, b = observe(m), observe(c)
    a["contexts"] = b["contexts"] = 0
    # reactions the user holds outside the model (e.g. the operand of `+=`) are not part of the model: a shared
    # metabolite's back-reference to them is not expected in the copy
    for o, mod in ((a, m), (b, c)):
        for d in o.get("met", {}).values():
            if isinstance(d, dict) and isinstance(d.get("reactions"), list):
                d["reactions"] = [r for r in d["reactions"] if r in mod.reactions]
    same(E, a, b, "copy=original", what=how)
    invariants(E, c, S, "copy-objects-distinct-and-owned")
    lp_equiv(E, c, S, "copy-lp=fba")
    ra, rb = reachable(m), reachable(c)
    shared = sorted(ra[i][0] for i in set(ra) & set(rb))
    E.prove(not shared, "no-shared-mutable-object", shared=shared[:6], what=how, n=len(shared))
    if ctx:
        before_c = observe(c)
        m.__exit__(None, None, None)
        same(E, before_c, observe(c), "closing-the-original's-context-does-not-touch-the-copy", what=how)
        lp_equiv(E, c, S, "copy-lp=fba")


def c12_after_history2(E):
    return c12_after_history(E, k=2)


def c12_arithmetic(E):
    env.for_path(E)
    m = base_model(E)
    r1, r2 = m.reactions.R1, m.reactions.R2
    if E.flag("operand_removed_from_the_model_before"):
        # the user holds a reaction that was taken out of the model; its metabolites and genes still belong to the model
        m.remove_reactions([r1])
    before = observe(m)
    what = E.pick("operation", ["Reaction.copy", "Metabolite.copy", "r1+r2", "r1-r2", "r1*k", "r1+0", "0+r1", "sum([r1])",
                                "no_rule+r1", "r1+no_rule", "empty.copy", "empty*2", "empty+0"])
    E.note(operation=what)
    if what == "Metabolite.copy":
        res = m.metabolites.A.copy()
        E.prove(res is not m.metabolites.A and res._model is None and len(res._reaction) == 0, "result-detached", what=what)
        res.notes["x"] = 1
        res.annotation.setdefault("kegg", []).append("zz")
        same(E, before, observe(m), "operands-unchanged", what=what)
        return
    if what == "Reaction.copy":
        res = r1.copy()
    elif what == "r1+r2":
        res = r1 + r2
    elif what == "r1-r2":
        res = r1 - r2
    elif what == "r1*k":
        res = r1 * E.pick("k", [2, -1, 0.5])
    elif what == "r1+0":
        res = r1 + 0
    elif what == "0+r1":
        res = 0 + r1
    elif what == "sum([r1])":
        res = sum([r1])
    elif what == "empty.copy":
        res = m.reactions.EMPTY.copy()          # a reaction without metabolites or genes
    elif what == "empty*2":
        res = m.reactions.EMPTY * 2
    elif what == "empty+0":
        res = m.reactions.EMPTY + 0
    elif what == "no_rule+r1":
        res = m.reactions.DM_B + r1         # the left operand has no gene rule, the right one has
    elif what == "r1+no_rule":
        res = r1 + m.reactions.DM_B
    else:
        res = copy.copy(r1)
    same(E, before, observe(m), "operands-unchanged", what=what)
    if what != "copy.copy(r1)":
        model_objs = set(id(x) for x in list(m.metabolites) + list(m.genes) + list(m.reactions))
        import ast
        model_nodes = set(id(n) for r in m.reactions for n in ast.walk(r.gpr)) | set(id(r.gpr) for r in m.reactions)
        model_nodes |= set(id(n) for n in ast.walk(r1.gpr)) | {id(r1.gpr)}
        model_objs |= set(id(x) for x in list(r1._metabolites) + list(r1._genes))
        E.prove(res is not r1 and res is not m.reactions.EMPTY and res._model is None and not any(id(x) in model_objs for x in list(res._metabolites) + list(res._genes))
                and id(res.gpr) not in model_nodes and not any(id(n) in model_nodes for n in ast.walk(res.gpr)),
                "result-detached", what=what)
        # mutating the result must not reach the model
        res.bounds = (-1, 1)
        res *= 2
        res.notes["x"] = 1
        for met in res._metabolites:
            met.name = "changed"
        import ast as _ast
        for node in _ast.walk(res.gpr):       # what rename_genes / remove_genes do to a rule: rewrite the leaves in place
            if isinstance(node, _ast.Name):
                node.id = node.id + "_renamed"
        same(E, before, observe(m), "mutating-the-result-does-not-reach-the-model", what=what)


HARNESSES = [
    H("c12_copy", c12_copy, quick=dict(max_paths=30000, time_budget=60), thorough=dict(max_paths=300000, time_budget=300),
      witness_every=40,
      bounds="base model + user variable/constraint + group; Model.copy / deepcopy / pickle; context open at copy time or not; "
             "one in-place mutation of every public mutable container (14) applied to the copy or to the original"),
    H("c12_ops", c12_ops, quick=dict(max_paths=60000, time_budget=80), thorough=dict(max_paths=600000, time_budget=500),
      witness_every=100,
      bounds="as c12_copy but the edit is one operation of the full alphabet (%d ops x argument shapes)" % (len(OPS) - 2)),
    H("c12_after_history", c12_after_history, tiers=("thorough",), thorough=dict(max_paths=300000, time_budget=200), witness_every=50,
      bounds="one operation of the full alphabet (inside an open context or not), then Model.copy / deepcopy / pickle"),
    H("c12_after_history2", c12_after_history2, tiers=("thorough",), thorough=dict(max_paths=2000000, time_budget=400), witness_every=300,
      bounds="two operations of the full alphabet, then a copy (sampled)"),
    H("c12_arithmetic", c12_arithmetic, quick=dict(max_paths=5000, time_budget=30), thorough=dict(max_paths=50000, time_budget=60),
      witness_every=10, bounds="Reaction.copy, Metabolite.copy, +, -, *, +0, 0+, sum, copy.copy on model reactions with symbolic R1"),
]
