"""C13 - analyses leave the model exactly as they found it; calling twice gives the same quantities.

Every analysis harness of C04-C06, C09, C14, C17-C20 already carries the 'model-unchanged' obligation on every
path (including infeasible / raising ones).  This module adds the clause in one uniform harness over a wide list
of analyses: the call is made inside or outside a user context, on models whose symbolic bounds make the analysis
succeed, report infeasibility or raise part-way, with a gene already knocked out by the user, with an empty or
a minimising objective; the full observation (content, bounds, objective and direction, LP, gene states, context
depth) is proved unchanged and a second call is proved to return the same uniquely defined quantities.
ROOM, gapfill and minimal_medium(minimize_components) run on the stub's MILP contract (DESIGN 10.4), production_envelope
through numpy's object-dtype linspace (points=3).  Outside / not applicable: sampling (float numerics); geometric_fba only
on T1 with max_tries<=2 (thorough).
"""
import math

import pandas as pd
from cobra.flux_analysis import (find_blocked_reactions, find_essential_genes, find_essential_reactions,
                                 flux_variability_analysis, geometric_fba, moma, pfba, single_gene_deletion,
                                 single_reaction_deletion, double_gene_deletion)
from cobra.flux_analysis.fastcc import fastcc
from cobra.flux_analysis.loopless import loopless_solution
from cobra.flux_analysis.phenotype_phase_plane import production_envelope
from cobra.flux_analysis.reaction import assess
from cobra.medium import minimal_medium

from vlib import env, networks
from vlib.observe import observe, same
from vlib.runner import H

PID = "C13"


def _frame(df):
    return {(i, c): df.at[i, c] for i in df.index for c in df.columns}


def _rows(df):
    return {frozenset(i): (g, s) for i, g, s in zip(df["ids"], df["growth"], df["status"])}


ANALYSES = {
    "optimize": lambda m: (lambda s: {"status": s.status, "objective": s.objective_value if s.status == "optimal" else None})(m.optimize()),
    "optimize(objective_sense,raise_error)": lambda m: (lambda s: {"status": s.status, "objective": s.objective_value})(
        m.optimize(objective_sense="minimize", raise_error=True)),
    "slim_optimize": lambda m: {"value": m.slim_optimize()},
    "fva": lambda m: _frame(flux_variability_analysis(m, processes=1)),
    "fva-fraction": lambda m: _frame(flux_variability_analysis(m, fraction_of_optimum=0.5, reaction_list=[m.reactions[1]], processes=1)),
    # the values loopless FVA returns depend on which optimal vertex the solver hands back (see checks/c05.py): only
    # the shape is a uniquely defined quantity
    "fva-loopless": lambda m: {"index": sorted(flux_variability_analysis(m, loopless=True, reaction_list=[m.reactions[1]], processes=1).index)},
    "fva-pfba_factor": lambda m: _frame(flux_variability_analysis(m, pfba_factor=1.1, reaction_list=[m.reactions[0]], processes=1)),
    "find_blocked_reactions": lambda m: {"blocked": sorted(find_blocked_reactions(m, processes=1))},
    "find_blocked_reactions(open)": lambda m: {"blocked": sorted(find_blocked_reactions(m, open_exchanges=True, processes=1))},
    "find_essential_genes": lambda m: {"essential": sorted(g.id for g in find_essential_genes(m, processes=1))},
    "find_essential_reactions": lambda m: {"essential": sorted(r.id for r in find_essential_reactions(m, processes=1))},
    "pfba": lambda m: (lambda s: {"status": s.status, "objective": s.objective_value if s.status == "optimal" else None})(pfba(m)),
    "linear-moma": lambda m: (lambda s: {"status": s.status, "objective": s.objective_value if s.status == "optimal" else None})(moma(m, linear=True)),
    "single_reaction_deletion": lambda m: _rows(single_reaction_deletion(m, processes=1)),
    "single_gene_deletion": lambda m: _rows(single_gene_deletion(m, processes=1)),
    "double_gene_deletion": lambda m: _rows(double_gene_deletion(m, ["g1", "g2"], processes=1)),
    "single_gene_deletion(linear moma)": lambda m: {k: v[1] for k, v in _rows(single_gene_deletion(m, ["g3"], method="linear moma", processes=1)).items()},
    # on an infeasible model loopless_solution works from the solver's left-over numbers: nothing uniquely defined there
    "loopless_solution": lambda m: (lambda s: {"status": s.status, "objective": s.objective_value if s.status == "optimal" else None})(
        loopless_solution(m)) if m.optimize().status == "optimal" else {"status": "infeasible-input"},
    "fastcc": lambda m: {"n": None if fastcc(m) is None else 0},
    "assess": lambda m: {"result": assess(m, m.reactions[1]) is True},
    "assess(existing-demand)": lambda m: {"result": assess(m, m.reactions.DM_B) is True},
    "minimal_medium": lambda m: (lambda s: {"total": None if s is None else s.sum() if len(s) else 0})(minimal_medium(m, 0.5)),
    # open_exchanges widens every exchange first: also on the paths where the minimisation then has no solution (None)
    "minimal_medium(open_exchanges)": lambda m: (lambda s: {"total": None if s is None else s.sum() if len(s) else 0})(
        minimal_medium(m, 0.5, open_exchanges=True)),
    "minimal_medium(open_exchanges,unreachable)": lambda m: (lambda s: {"total": None if s is None else s.sum() if len(s) else 0})(
        minimal_medium(m, 1e6, open_exchanges=7)),
    "minimal_medium(components,open_exchanges,unreachable)": lambda m: (lambda s: {"n": None if s is None else len(s)})(
        minimal_medium(m, 1e6, minimize_components=True, open_exchanges=True)),
    # MILP formulations on the stub's MILP contract (DESIGN 10.4)
    "room": lambda m: (lambda s: {"status": s.status, "objective": s.objective_value if s.status == "optimal" else None})(_room(m)),
    "minimal_medium(components)": lambda m: (lambda s: {"n": None if s is None else len(s)})(minimal_medium(m, 0.5, minimize_components=True)),
    "gapfill": lambda m: {"n": len(_gapfill(m))},
    "gapfill(empty-universal)": lambda m: {"n": len(_gapfill(m, empty=True))},
    "production_envelope": lambda m: {"shape": list(production_envelope(m, [m.reactions.R1], points=3).shape)},
    "model.summary": lambda m: {"objective": m.summary()._objective_value},
    "metabolite.summary": lambda m: {"n": len(m.metabolites[0].summary()._flux)},
    "reaction.summary": lambda m: {"n": len(m.reactions[1].summary()._flux)},
}
USES_FIXED_OBJECTIVE = ("pfba", "fva-pfba_factor", "model.summary", "metabolite.summary", "reaction.summary", "linear-moma", "room")
QUICK = ["optimize", "optimize(objective_sense,raise_error)", "slim_optimize", "fva", "fva-fraction", "fva-pfba_factor", "find_blocked_reactions", "find_essential_genes",
         "pfba", "linear-moma", "single_reaction_deletion", "single_gene_deletion", "double_gene_deletion",
         "single_gene_deletion(linear moma)", "loopless_solution", "assess", "assess(existing-demand)", "minimal_medium",
         "model.summary", "production_envelope", "minimal_medium(components)", "gapfill", "gapfill(empty-universal)",
         "minimal_medium(open_exchanges)", "minimal_medium(open_exchanges,unreachable)", "minimal_medium(components,open_exchanges,unreachable)"]


def _room(m):
    from cobra.flux_analysis import room
    ref = pd.Series({r.id: 0.0 for r in m.reactions})
    ref["EX_A"], ref["R1"], ref["DM_B"] = -4.0, 4.0, 4.0
    from cobra import Solution
    return room(m, solution=Solution(objective_value=10.0, status="optimal", fluxes=ref))


_UNIVERSAL = {}
_CHANGED = []


def _gapfill(m, empty=False):
    """gapfill takes a second model, the universal one, which it must not modify either: one universal model per path is
    handed to both calls and its reaction list is part of what the two calls are compared on"""
    from cobra import Model, Reaction
    from cobra.flux_analysis import gapfill
    key = (id(m), empty)
    if key not in _UNIVERSAL:
        _UNIVERSAL.clear()
        uni = Model("universal")
        if not empty:
            r = Reaction("R9", lower_bound=0, upper_bound=10)
            uni.add_reactions([r])
            r.add_metabolites({m.metabolites.A.copy(): -1, m.metabolites.B.copy(): 1})
        _UNIVERSAL[key] = uni
    uni = _UNIVERSAL[key]
    try:
        out = gapfill(m, uni, demand_reactions=empty)[0]
    finally:
        left = sorted(r.id for r in uni.reactions) + sorted(x.id for x in uni.metabolites)
        if left != ((["R9", "A", "B"]) if not empty else []):
            _CHANGED.append(left)
    return out


def _same_result(E, a, b, name):
    if a is None or b is None:
        E.prove(a is None and b is None, "second-call-same-quantities", what=name)
        return
    E.prove(set(a) == set(b), "second-call-same-quantities", what=name)
    conds = []
    for k in a:
        if k not in b:
            continue
        x, y = a[k], b[k]
        if isinstance(x, tuple):
            for p, q in zip(x, y):
                conds.append(_eqv(E, p, q))
        else:
            conds.append(_eqv(E, x, y))
    E.prove(E.all_of(conds), "second-call-same-quantities", what=name)


def _eqv(E, x, y):
    if isinstance(x, (str, list, bool)) or x is None or isinstance(y, (str, list, bool)) or y is None:
        return x == y
    if isinstance(x, float) and math.isnan(x):
        return isinstance(y, float) and math.isnan(y)
    if isinstance(y, float) and math.isnan(y):
        return False
    return E.eq(x, y)


def c13_analysis(E, names=QUICK, sym=(("EX_A",), ("DM_B",)), objectives=("DM_B:max", "DM_B:min", "empty:min", "unset:min"),
                 pre_ko=("none", "g3")):
    env.for_path(E)
    name = E.pick("analysis", list(names))
    m = networks.build("T8")
    which = E.pick("symbolic_reaction", list(sym))
    networks.symbolic_bounds(E, m, which=list(which), delta=0.01)
    objective = E.pick("objective", list(objectives))
    if objective.startswith("DM_B"):
        m.objective = "DM_B"
    elif objective.startswith("unset"):
        pass        # the model never had an objective assigned (GLPK reports the integer 0, not the float 0.0 it
                    # reports for an objective that was assigned empty; code comparing the expression with 0 differs)
    else:
        from optlang.symbolics import Zero
        m.objective = m.problem.Objective(Zero, sloppy=True)
    if name in ("fva-fraction",) and objective.endswith("min"):
        return      # fraction < 1 needs an optimum with the sign of the direction (C05's precondition)
    m.objective_direction = objective.split(":")[1]
    pre = E.pick("gene_already_knocked_out", list(pre_ko))
    if pre != "none":
        m.genes.get_by_id(pre).knock_out()
    left = False
    if name in USES_FIXED_OBJECTIVE and objective.startswith("DM_B") and E.flag("fixed_objective_constraint_left_by_the_user"):
        # the user fixed the current objective as a constraint earlier (outside any context, with some slack): analyses that use
        # the same helper replace it for their own purposes and must put it back exactly
        from cobra.util.solver import fix_objective_as_constraint
        try:
            opt0 = m.slim_optimize(error_value=None)
            # looser than the optimum by half its magnitude (+1), whatever its sign: the model stays feasible
            slack = abs(opt0) * 0.5 + 1
            fix_objective_as_constraint(m, bound=(opt0 - slack if objective.endswith("max") else opt0 + slack))
            left = True
        except Exception:
            return
    inctx = E.flag("inside_user_context")
    E.note(analysis=name, objective=objective, pre_knocked=pre, inside_context=inctx, symbolic=list(which), helper_left=left)
    fn = ANALYSES[name]
    if inctx:
        m.__enter__()
        # an edit of the user's own inside the open context (on a reaction whose bounds are concrete here)
        next(r for r in (m.reactions.R2, m.reactions.R1) if r.id not in which).upper_bound = 8
    if name == "fva-fraction":
        # fraction < 1 needs an optimum with the sign of the direction (C05's precondition); otherwise the problem
        # FVA builds is infeasible and what it returns is left-over solver state, not a defined quantity
        opt = m.slim_optimize()
        if not (opt >= 0):
            return
    before = observe(m)

    def run():
        try:
            return fn(m), None
        except Exception as e:
            return None, e
    del _CHANGED[:]
    r1, e1 = run()
    if name.startswith("gapfill"):
        E.prove(not _CHANGED, "the-universal-model-given-to-gapfill-is-unchanged", left=str(_CHANGED[:1]))
    mid = observe(m)
    same(E, before, mid, "model-unchanged", what=name, raised=type(e1).__name__ if e1 else None)
    r2, e2 = run()
    same(E, before, observe(m), "model-unchanged-after-second-call", what=name)
    E.prove((e1 is None) == (e2 is None) and type(e1) is type(e2), "second-call-same-outcome", what=name,
            first=type(e1).__name__ if e1 else None, second=type(e2).__name__ if e2 else None)
    if e1 is None and e2 is None:
        _same_result(E, r1, r2, name)
    if inctx:
        m.__exit__(None, None, None)


def c13_thorough(E):
    return c13_analysis(E, names=list(ANALYSES), sym=(("EX_A", "R1"), ("DM_B", "R2"), ("EX_A", "DM_B")),
                        objectives=("DM_B:max", "DM_B:min", "empty:min", "empty:max", "unset:min"), pre_ko=("none", "g3", "g1"))


def c13_geometric(E):
    env.for_path(E)
    m = networks.build("T1")
    networks.symbolic_bounds(E, m, which=["R1"], delta=0.01)
    m.objective = "DM_B"
    tries = E.pick("max_tries", [1, 2])
    before = observe(m)
    try:
        geometric_fba(m, max_tries=tries, processes=1)
        raised = None
    except Exception as e:
        raised = e
    same(E, before, observe(m), "model-unchanged", what="geometric_fba", raised=type(raised).__name__ if raised else None)


HARNESSES = [
    H("c13_analysis", c13_analysis, tiers=("quick",), quick=dict(max_paths=30000, time_budget=110), witness_every=60,
      bounds="T8 (4 reactions, 4 genes); %d analyses; one symbolic reaction (EX_A / DM_B: infeasible instances occur); objective "
             "DM_B max/min or empty min; a gene already knocked out or not; inside/outside a user context; each analysis called twice"
             % len(QUICK)),
    H("c13_thorough", c13_thorough, tiers=("thorough",), thorough=dict(max_paths=600000, time_budget=700), witness_every=200,
      bounds="%d analyses incl. loopless FVA, fastcc, open-exchange blocked search, essential reactions, summaries; two symbolic "
             "reactions" % len(ANALYSES)),
    H("c13_geometric", c13_geometric, tiers=("thorough",), thorough=dict(max_paths=20000, time_budget=300), witness_every=50,
      bounds="geometric_fba on T1 with symbolic R1 bounds, max_tries 1 or 2 (RuntimeError exit reached)"),
]
