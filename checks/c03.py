"""C03 - leaving a `with model:` block restores the model completely.

Bracketed histories: enter, up to k operations from the documented-as-reversible alphabet (vlib/ops.py,
membership recomputed from the sources at start-up: @resettable / get_context / docstring wording), optional
nested enter..exit, termination normally or by an exception (an operation that raises a documented exception
ends the block, exactly as an uncaught exception would).  At every exit - inner ones against the state at
the matching enter - the full observable state (content, objective and direction, LP, cross references;
list order aside) is proved equal for all values of the symbolic inputs, and the exit must not raise.
"""
import ast
import os
import re

from vlib import env
from vlib.observe import observe, same
from vlib.ops import OPS, REVERSIBLE, SUB, State, base_model
from vlib.runner import H

PID = "C03"


def scan_sources():
    """which functions the source makes context-aware: decorated @resettable or calling get_context"""
    root = "/repo/src/cobra"
    out = {"resettable": [], "get_context": [], "docstring": []}
    for sub in ("core/model.py", "core/reaction.py", "core/gene.py", "core/metabolite.py", "util/solver.py",
                "manipulation/delete.py", "manipulation/modify.py", "flux_analysis/parsimonious.py", "flux_analysis/moma.py"):
        p = os.path.join(os.environ.get("VERIF_REPO_SRC", "/repo/src"), "cobra", sub)
        try:
            src = open(p).read()
            tree = ast.parse(src)
        except (OSError, SyntaxError):
            continue
        for node in ast.walk(tree):
            if isinstance(node, ast.FunctionDef):
                if any((isinstance(d, ast.Name) and d.id == "resettable") for d in node.decorator_list):
                    out["resettable"].append("%s:%s" % (sub, node.name))
                body = ast.get_source_segment(src, node) or ""
                if "get_context(" in body:
                    out["get_context"].append("%s:%s" % (sub, node.name))
                doc = ast.get_docstring(node) or ""
                if re.search(r"revert|reversed upon exit|as context|set temporarily|temporarily", doc):
                    out["docstring"].append("%s:%s" % (sub, node.name))
    return {k: sorted(set(v)) for k, v in out.items()}


def block(E, k, alphabet, nesting=1, sym_coef=False, pattern=None, only_rxn=None):
    env.for_path(E)
    if only_rxn:
        E.note(_only_rxn=only_rxn)
    S = State()
    m = base_model(E, sym_coef=sym_coef)
    stack = []

    def enter():
        stack.append((observe(m), set(S.user_vars), set(S.user_cons), len(m._contexts)))
        m.__enter__()
        S.log.append(("enter", {}, None))

    def leave(why):
        obs, uv, uc, depth = stack.pop()
        try:
            m.__exit__(None, None, None)
            S.log.append(("exit", {}, None))
        except Exception as e:
            S.log.append(("exit", {}, type(e).__name__))
            E.note(ops=_ops(S))
            E.prove(False, "exit-does-not-raise", exc=type(e).__name__, msg=str(e)[:160], op=_last_real(S), **_d(S))
            raise _Stop()
        S.user_vars, S.user_cons = uv, uc
        E.note(ops=_ops(S))
        E.prove(len(m._contexts) == depth, "context-stack-back-to-entry-depth", **_d(S))
        same(E, obs, observe(m), "restored-on-exit", ignore_order=True, op=_last_real(S), **_d(S))

    enter()
    names = list(alphabet) + ["end-block"] + (["enter-inner"] if nesting > 1 else [])
    try:
        for step in range(k):
            if pattern is not None and pattern[step] is not None:
                name = pattern[step]
            else:
                name = E.pick("op%d" % step, names if pattern is None else list(alphabet))
            if name == "end-block":
                if len(stack) > 1:
                    leave("inner")
                    continue
                break
            if name == "enter-inner":
                if len(stack) >= nesting:
                    return
                enter()
                continue
            n0 = len(S.log)
            new = OPS[name][0](E, m, S)
            if new is not None:
                return          # operations returning another model are not part of this property
            if any(l[2] for l in S.log[n0:]):
                break           # a documented exception ends the block (propagates through every `with`)
        while stack:
            leave("end")
    except _Stop:
        return


class _Stop(Exception):
    pass


def _ops(S):
    return [l[0] + ("!" + l[2] if l[2] else "") for l in S.log]


def _last_real(S):
    for l in reversed(S.log):
        if l[0] not in ("enter", "exit"):
            return l[0]
    return "none"


def _d(S):
    return dict(ops=_ops(S)[-8:], nested=sum(1 for l in S.log if l[0] == "enter") > 1)


def c03_k1(E):
    block(E, 2, REVERSIBLE, nesting=2, sym_coef=True) if False else block(E, 1, REVERSIBLE, nesting=1, sym_coef=True)


def c03_k1_nested(E):
    # enter, enter, op, exit, exit  (the inner exit runs the undo while the outer context is active)
    block(E, 3, REVERSIBLE, nesting=2, pattern=("enter-inner", None, "end-block"))


def c03_outer_then_inner(E):
    # enter, op, enter, op, exit, exit  over the sub-alphabet: the inner block starts from a modified model
    block(E, 4, SUB_REV, nesting=2, pattern=(None, "enter-inner", None, "end-block"))


def c03_nested_free(E):
    block(E, 3, REVERSIBLE, nesting=2)


def c03_k2_sub(E):
    block(E, 2, SUB_REV, nesting=1)


def c03_k2_full(E):
    block(E, 2, REVERSIBLE, nesting=1)


def c03_k3_sub(E):
    block(E, 4, SUB_REV, nesting=2)


def c03_same_reaction(E):
    # three steps spent on ONE reaction: the same attribute set twice with the coupled one in between, ...
    block(E, 3, SAME, nesting=1, only_rxn="R1")


def c03_same_reaction_wide(E):
    block(E, 3, SAME + ["imul", "add_metabolites"], nesting=1, only_rxn="R1")


SUB_REV = [o for o in SUB if o in REVERSIBLE] + ["objective", "objective_coefficient", "remove_genes", "rule"]
SAME = ["lower_bound", "upper_bound", "bounds", "knock_out", "objective_coefficient", "fix_objective"]

HARNESSES = [
    H("c03_k1", c03_k1, quick=dict(max_paths=20000, time_budget=40), thorough=dict(max_paths=100000, time_budget=100),
      witness_every=20, bounds="one context, one operation from the full reversible alphabet (%d ops x argument shapes), R1 with "
                               "symbolic coefficients and bounds" % len(REVERSIBLE)),
    H("c03_k2_sub", c03_k2_sub, tiers=("quick",), quick=dict(max_paths=80000, time_budget=80), witness_every=100,
      bounds="one context, all pairs from the sub-alphabet %s" % SUB_REV),
    H("c03_nested", c03_k1_nested, quick=dict(max_paths=80000, time_budget=60), thorough=dict(max_paths=80000, time_budget=120),
      witness_every=20, bounds="enter, enter, one operation of the full reversible alphabet, exit, exit"),
    H("c03_outer_then_inner", c03_outer_then_inner, quick=dict(max_paths=100000, time_budget=80),
      thorough=dict(max_paths=400000, time_budget=300), witness_every=100,
      bounds="enter, operation, enter, operation, exit, exit over the sub-alphabet"),
    H("c03_same_reaction", c03_same_reaction, tiers=("quick",), quick=dict(max_paths=100000, time_budget=70), witness_every=100,
      bounds="one context, all triples of %s applied to the same reaction R1 (symbolic values)" % SAME),
    H("c03_same_reaction_wide", c03_same_reaction_wide, tiers=("thorough",), thorough=dict(max_paths=600000, time_budget=250),
      witness_every=200,
      bounds="one context, all triples of %s applied to the same reaction R1 (symbolic values)" % (SAME + ["imul", "add_metabolites"])),
    H("c03_nested_free", c03_nested_free, tiers=("thorough",), thorough=dict(max_paths=2000000, time_budget=300), witness_every=300,
      bounds="nesting depth 2, any 3 steps (enter-inner / operation / end-block) over the full reversible alphabet (sampled)"),
    H("c03_k2_full", c03_k2_full, tiers=("thorough",), thorough=dict(max_paths=2000000, time_budget=350), witness_every=300,
      bounds="one context, all pairs of the full reversible alphabet"),
    H("c03_k3_sub", c03_k3_sub, tiers=("thorough",), thorough=dict(max_paths=2000000, time_budget=300), witness_every=300,
      bounds="nesting depth 2, up to 4 steps over the sub-alphabet"),
]
