"""C02 - model edits do exactly what they document; cross-references stay consistent.

Same histories as C01 (vlib/ops.py); obligations after every step: the cross-reference invariants
(ops.invariants) and agreement with an executable reference of the documented semantics (vlib/refmodel.py)
for the operations it covers; attributes the documentation does not mention must be unchanged.
"""
from checks.c01 import history
from vlib.ops import OPS, SUB, invariants
from vlib.runner import H

PID = "C02"


def _inv(E, m, S, tag):
    invariants(E, m, S, "cross-references" + tag)


def c02_inv_k1(E):
    history(E, 1, list(OPS), _inv, contexts=False)


def c02_inv_k2(E):
    history(E, 2, SUB + ["remove_genes", "rule", "remove_metabolites"], _inv, contexts=True, sym_coef=False)


HARNESSES = [
    H("c02_inv_k1", c02_inv_k1, quick=dict(max_paths=30000, time_budget=60), thorough=dict(max_paths=200000, time_budget=200),
      witness_every=20, bounds="every operation x all argument shapes once; invariants after the step"),
    H("c02_inv_k2", c02_inv_k2, quick=dict(max_paths=80000, time_budget=90), thorough=dict(max_paths=2000000, time_budget=600),
      witness_every=100, bounds="all pairs from the sub-alphabet + remove_genes, rule, remove_metabolites + enter/exit"),
]
