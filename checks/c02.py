"""C02 - model edits do exactly what they document; cross-references stay consistent.

Same histories as C01 (vlib/ops.py); obligations after every step: the cross-reference invariants
(ops.invariants) and agreement with an executable reference of the documented semantics (vlib/refmodel.py)
for the operations it covers; attributes the documentation does not mention must be unchanged.
"""
from checks.c01 import history
from vlib.ops import OPS, SUB, invariants
from vlib.runner import H

PID = "C02"


def _inv(E, m, S, tag):
    invariants(E, m, S, "cross-references" + tag)


def c02_inv_k1(E):
    history(E, 1, list(OPS), _inv, contexts=False)


def c02_inv_k2(E):
    history(E, 2, SUB + ["remove_genes", "rule", "remove_metabolites"], _inv, contexts=True, sym_coef=False)


def _ref(E, m, S, tag):
    from vlib.refmodel import compare
    invariants(E, m, S, "cross-references" + tag)
    from vlib.ops import S_detail
    compare(E, S.ref, m, "documented-effect" + tag, **S_detail(S))


def c02_ref_k1(E):
    history(E, 1, list(OPS), _ref, contexts=False, with_ref=True)


def c02_ref_k2(E):
    history(E, 2, SUB + ["remove_genes", "rule", "remove_metabolites", "isub", "add_model_metabolites", "rename_metabolite"], _ref,
            contexts=True, sym_coef=False, with_ref=True)


def c02_ref_k2_full(E):
    history(E, 2, list(OPS), _ref, contexts=True, sym_coef=False, with_ref=True)


def c02_ref_k3_sub(E):
    history(E, 3, SUB + ["remove_genes", "rule", "remove_metabolites"], _ref, contexts=True, sym_coef=False, with_ref=True)


HARNESSES = [
    H("c02_inv_k1", c02_inv_k1, tiers=("thorough",), thorough=dict(max_paths=200000, time_budget=200),
      witness_every=20, bounds="every operation x all argument shapes once; invariants after the step"),
    H("c02_ref_k1", c02_ref_k1, quick=dict(max_paths=30000, time_budget=60), thorough=dict(max_paths=200000, time_budget=200),
      witness_every=20, bounds="every operation once; state compared with the executable reference of the documented semantics "
                               "(vlib/refmodel.py) where one exists (bounds, stoichiometry edits, *=, +=, -=, rules, add/remove "
                               "reactions and metabolites, remove/rename genes, renames); R1 with symbolic coefficients and bounds"),
    H("c02_ref_k2", c02_ref_k2, quick=dict(max_paths=120000, time_budget=100), thorough=dict(max_paths=2000000, time_budget=400),
      witness_every=150, bounds="all pairs from the sub-alphabet + remove_genes, rule, remove_metabolites, -=, add_metabolites(model), "
                                "metabolite rename + enter/exit (the reference is restored at exit as C03 demands)"),
    H("c02_ref_k2_full", c02_ref_k2_full, tiers=("thorough",), thorough=dict(max_paths=3000000, time_budget=450), witness_every=400,
      bounds="all pairs of the full alphabet + enter/exit, reference comparison and invariants after every step (sampled when "
             "the budget ends first)"),
    H("c02_ref_k3_sub", c02_ref_k3_sub, tiers=("thorough",), thorough=dict(max_paths=3000000, time_budget=400), witness_every=400,
      bounds="all triples from the sub-alphabet + remove_genes, rule, remove_metabolites + enter/exit (sampled)"),
    H("c02_inv_k2", c02_inv_k2, tiers=("thorough",), thorough=dict(max_paths=2000000, time_budget=300),
      witness_every=100, bounds="all pairs from the sub-alphabet + remove_genes, rule, remove_metabolites + enter/exit"),
]
