"""C07 - knocking out genes disables exactly the reactions whose rule becomes false.

Real code executed: Gene.knock_out, Gene.functional setter, Reaction.functional, GPR.eval/_eval_gpr,
knock_out_model_genes, Reaction.knock_out, bounds setters (+ update_variable_bounds on the stub),
contexts.  Symbolic: which genes are knocked out (one Boolean per gene, forked by the harness'
`if ko[g]`), their order (choice of permutation), the API (choice), the original bounds (reals).
Oracle: gprspec.tt_formula / truth (independent and/or evaluator).
"""
import itertools

from cobra import Metabolite, Model, Reaction
from cobra.manipulation import knock_out_model_genes

from vlib import env, gprspec
from vlib.gprspec import SHAPES, instantiate, truth
from vlib.observe import observe, same
from vlib.runner import H

PID = "C07"
GENES = ["g0", "g1", "g2", "g3"]


def build(E, rules, sym_bounds=True, w=None):
    m = Model("ko")
    A, B = Metabolite("A", compartment="c"), Metabolite("B", compartment="c")
    rs = []
    orig = {}
    for i, tree in enumerate(rules):
        r = Reaction("R%d" % i)
        r.add_metabolites({A: -1, B: 1})
        if tree is not None:
            r.gene_reaction_rule = gprspec.to_text(tree, "lower")
        rs.append(r)
    ex = Reaction("EX_A")
    ex.add_metabolites({A: -1})
    rs.append(ex)
    m.add_reactions(rs)
    which = None
    if w == 1:
        which = m.reactions[E.choice("symbolic_reaction", len(m.reactions), [r.id for r in m.reactions])].id
    for r in m.reactions:
        if sym_bounds and (which is None or r.id == which):
            lb = E.real("lb_" + r.id, -10, 10)
            ub = E.real("ub_" + r.id, -10, 10)
            E.assume(E.le(lb, ub))
            # the statement's caveat: a reaction already at (0,0) cannot show the difference
            E.assume(E.neg(E.all_of([E.eq(lb, 0), E.eq(ub, 0)])))
        else:
            lb, ub = -5.0, 7.0
        r.bounds = (lb, ub)
        orig[r.id] = (lb, ub)
    return m, orig


def check_state(E, m, rules, orig, absent, label):
    for i, tree in enumerate(rules):
        r = m.reactions.get_by_id("R%d" % i)
        alive = True if tree is None else truth(tree, absent)
        if alive:
            E.prove(E.all_of([E.eq(r.lower_bound, orig[r.id][0]), E.eq(r.upper_bound, orig[r.id][1])]),
                    "rule-true-reaction-keeps-bounds" + label, reaction=r.id, rule=str(tree), absent=sorted(absent))
        else:
            E.prove(E.all_of([E.eq(r.lower_bound, 0), E.eq(r.upper_bound, 0)]),
                    "rule-false-reaction-zeroed" + label, reaction=r.id, rule=str(tree), absent=sorted(absent))
        E.prove(bool(r.functional) == alive, "reaction.functional=rule" + label, reaction=r.id, rule=str(tree),
                absent=sorted(absent))
    ex = m.reactions.get_by_id("EX_A")
    E.prove(E.all_of([E.eq(ex.lower_bound, orig["EX_A"][0]), E.eq(ex.upper_bound, orig["EX_A"][1])]),
            "rule-less-reaction-untouched" + label)
    for g in m.genes:
        E.prove(g.functional == (g.id not in absent), "gene.functional=knocked-set" + label, gene=g.id)
    # the stub's variables follow the reaction bounds (C01 obligation restricted to bounds)
    for r in m.reactions:
        f, v = r.forward_variable, r.reverse_variable
        lo = E.eq((f.lb if f.lb is not None else 0) - (v.ub if v.ub is not None else 0), r.lower_bound)
        hi = E.eq((f.ub if f.ub is not None else 0) - (v.lb if v.lb is not None else 0), r.upper_bound)
        E.prove(E.all_of([lo, hi]), "solver-bounds-follow" + label, reaction=r.id)


def c07_knockout(E, shapes=None, ngenes=3, max_rules=None, w=1, all_orders=False):
    env.for_path(E)
    shapes = shapes if shapes is not None else [s for s in SHAPES if _ng(s) <= ngenes]
    rules = []
    if max_rules is None:
        # quick: every shape next to a fixed rule that shares genes with it
        rules.append(instantiate(shapes[E.choice("shape0", len(shapes))], GENES))
        rules.append(("or", "g0", "g2"))
    else:
        nr = 1 + E.choice("n_rules", max_rules)
        for i in range(nr):
            rules.append(instantiate(shapes[E.choice("shape%d" % i, len(shapes))], GENES))
    rules.append(None)
    m, orig = build(E, rules, w=w)
    genes = sorted(g.id for g in m.genes)
    E.note(rules=[str(r) for r in rules])
    api = E.pick("api", ["Gene.knock_out", "knock_out_model_genes(objects)", "knock_out_model_genes(ids)",
                         "knock_out_model_genes(indices)", "one-call-per-gene", "knock_out_model_genes(ids+unknown-id)"])
    ctx = E.pick("context", ["none", "with", "nested"])
    if api == "knock_out_model_genes(ids+unknown-id)" and ctx == "nested":
        return
    perms = list(itertools.permutations(range(len(genes))))
    if not all_orders or len(genes) > 3:
        perms = [perms[0], perms[-1]]
    order = list(E.pick("order", perms))
    ko = {g: E.flag("ko_" + g) for g in genes}
    chosen = [genes[i] for i in order if ko[genes[i]]]
    absent = set(chosen)
    E.note(api=api, context=ctx, knocked=chosen)
    before = observe(m)

    def apply():
        if api == "Gene.knock_out":
            for g in chosen:
                m.genes.get_by_id(g).knock_out()
        elif api == "knock_out_model_genes(objects)":
            knock_out_model_genes(m, [m.genes.get_by_id(g) for g in chosen])
        elif api == "knock_out_model_genes(ids)":
            knock_out_model_genes(m, list(chosen))
        elif api == "knock_out_model_genes(indices)":
            knock_out_model_genes(m, [m.genes.index(g) for g in chosen])
        elif api == "knock_out_model_genes(ids+unknown-id)":
            # a call that fails part-way (an id that is no gene, after valid ones): whatever it leaves behind, the genes that
            # report non-functional afterwards and the closed reactions must still agree
            try:
                knock_out_model_genes(m, list(chosen) + ["not_a_gene"])
                E.prove(False, "unknown-gene-id-raises")
            except (KeyError, ValueError, TypeError):
                pass
            absent.clear()
            absent.update(g for g in genes if not m.genes.get_by_id(g).functional)
        else:
            for g in chosen:
                ret = knock_out_model_genes(m, [g])
                # the returned list: reactions of this gene that are now non-functional
                gene = m.genes.get_by_id(g)
                want = sorted(r.id for r in gene.reactions if not _alive(rules, r, absent_so_far(chosen, g)))
                E.prove(sorted(r.id for r in ret) == want, "returned-list=reactions-now-disabled", gene=g)

    if ctx == "none":
        apply()
        check_state(E, m, rules, orig, absent, "")
    elif ctx == "with":
        with m:
            apply()
            check_state(E, m, rules, orig, absent, "")
        same(E, before, observe(m), "restored-on-context-exit", ignore_order=True, what="knock-outs")
    else:
        with m:
            first, rest = chosen[:1], chosen[1:]
            for g in first:
                m.genes.get_by_id(g).knock_out()
            mid = observe(m)
            with m:
                for g in rest:
                    m.genes.get_by_id(g).knock_out()
                check_state(E, m, rules, orig, absent, "")
            same(E, mid, observe(m), "restored-on-inner-exit", ignore_order=True, what="knock-outs")
            check_state(E, m, rules, orig, set(first), "[after-inner-exit]")
        same(E, before, observe(m), "restored-on-context-exit", ignore_order=True, what="knock-outs")


def absent_so_far(chosen, g):
    return set(chosen[: chosen.index(g) + 1])


def _alive(rules, r, absent):
    if not r.id.startswith("R"):
        return True
    t = rules[int(r.id[1:])]
    return True if t is None else truth(t, absent)


def _ng(shape):
    if isinstance(shape, int):
        return shape + 1
    return max(_ng(c) for c in shape[1:])


def c07_reaction_knock_out(E):
    """Reaction.knock_out sets exactly its own bounds to zero"""
    env.for_path(E)
    rules = [instantiate(SHAPES[5], GENES), instantiate(SHAPES[1], GENES), None]
    m, orig = build(E, rules)
    k = E.choice("reaction", len(m.reactions), [r.id for r in m.reactions])
    ctx = E.flag("context")
    before = observe(m)
    target = m.reactions[k]
    if ctx:
        m.__enter__()
    target.knock_out()
    for r in m.reactions:
        if r is target:
            E.prove(E.all_of([E.eq(r.lower_bound, 0), E.eq(r.upper_bound, 0)]), "knocked-reaction-zeroed")
        else:
            E.prove(E.all_of([E.eq(r.lower_bound, orig[r.id][0]), E.eq(r.upper_bound, orig[r.id][1])]),
                    "other-reactions-untouched", reaction=r.id)
    for g in m.genes:
        E.prove(g.functional is True, "genes-untouched-by-reaction-knock-out")
    if ctx:
        m.__exit__(None, None, None)
        same(E, before, observe(m), "restored-on-context-exit", what="Reaction.knock_out")


def c07_repeat(E, shapes=None, w=1):
    """knock-outs that meet state left by earlier ones: the gene already reports non-functional (public setter),
    the gene was knocked out before and the user re-opened the reactions, the same gene is listed twice"""
    env.for_path(E)
    shapes = shapes if shapes is not None else [s for s in SHAPES if _ng(s) <= 3][::2]
    rules = [instantiate(shapes[E.choice("shape0", len(shapes))], GENES), ("or", "g0", "g2"), None]
    m, orig = build(E, rules, w=w)
    genes = sorted(g.id for g in m.genes)
    pre = E.pick("earlier_state", ["flag-already-False-by-setter", "knocked-out-before-then-bounds-reopened",
                                   "gene-listed-twice"])
    api = E.pick("api", ["Gene.knock_out", "knock_out_model_genes(ids)"])
    ko = {g: E.flag("ko_" + g) for g in genes}
    chosen = [g for g in genes if ko[g]]
    if not chosen:
        return
    absent = set(chosen)
    E.note(rules=[str(r) for r in rules], api=api, earlier_state=pre, knocked=chosen)

    def apply(lst):
        if api == "Gene.knock_out":
            for g in lst:
                m.genes.get_by_id(g).knock_out()
        else:
            knock_out_model_genes(m, list(lst))
    if pre == "flag-already-False-by-setter":
        m.genes.get_by_id(chosen[0]).functional = False
        apply(chosen)
    elif pre == "knocked-out-before-then-bounds-reopened":
        apply(chosen[:1])
        for r in m.reactions:
            r.bounds = orig[r.id]
        apply(chosen)
    else:
        apply(chosen + chosen[:1])
    check_state(E, m, rules, orig, absent, "")


def c07_thorough(E):
    return c07_knockout(E, shapes=SHAPES, ngenes=4, max_rules=2, w=None, all_orders=True)


HARNESSES = [
    H("c07_knockout", c07_knockout, tiers=("quick",), quick=dict(max_paths=60000, time_budget=70),
      bounds="each of the 13 fixed and/or shapes over <=3 genes (depth<=3, shared, duplicate, absorbing genes) next to "
             "a fixed rule sharing its genes and a rule-less reaction; every subset of genes knocked out (symbolic flags), "
             "forward and reverse order; 5 API variants; no / one / nested context; one reaction (every choice) with "
             "symbolic original bounds in [-10,10] not (0,0), the others at (-5,7)"),
    H("c07_thorough", c07_thorough, tiers=("thorough",), thorough=dict(max_paths=3000000, time_budget=540),
      bounds="1-2 ruled reactions from all 16 shapes over 4 genes, all orders (<=3 genes), all original bounds symbolic"),
    H("c07_repeat", c07_repeat, quick=dict(max_paths=30000, time_budget=40),
      thorough=dict(max_paths=30000, time_budget=60),
      bounds="7 shapes next to a fixed rule; every non-empty subset of genes; the first knocked gene already flagged "
             "non-functional through the setter / knocked out before with the reactions re-opened by the user / listed twice; "
             "Gene.knock_out and knock_out_model_genes"),
    H("c07_reaction_knock_out", c07_reaction_knock_out, quick=dict(max_paths=2000, time_budget=20),
      thorough=dict(max_paths=2000, time_budget=30), bounds="3 reactions + exchange, symbolic bounds, in/out of a context"),
]
