"""C15 - identifier-indexed lists stay coherent under every list operation.

One inductive step from an arbitrary valid DictList of symbolic size n: one operation (choice) with
symbolic integer arguments (SymInt: indices, slice fields, payload ids as pool indices) flows into the
real DictList code; the solver case-splits every integer that reaches C code and decides the Python-level
comparisons.  Oracle: a plain Python list of the same objects plus the uniqueness rule.
Obligations after the step: list-model conformance, exact index, lookups agree, a raising operation
leaves the list unchanged, and the list model's mandatory failures do raise.
"""
import copy
import pickle

from cobra.core.dictlist import DictList
from cobra.core.object import Object

from vlib.runner import H

PID = "C15"


class Obj(Object):
    """payload; picklable at module level"""


def coherent(dl):
    """representation invariant + lookup agreement; returns list of problems"""
    bad = []
    ids = [o.id for o in list.__iter__(dl)]
    if len(set(ids)) != len(ids):
        bad.append("duplicate ids %r" % (ids,))
    want = {o.id: i for i, o in enumerate(list.__iter__(dl))}
    if dl._dict != want:
        bad.append("_dict %r != %r" % (dl._dict, want))
        return bad
    for i, o in enumerate(list.__iter__(dl)):
        try:
            if dl.get_by_id(o.id) is not o:
                bad.append("get_by_id(%s) wrong" % o.id)
            if dl.index(o) != i or dl.index(o.id) != i:
                bad.append("index(%s) wrong" % o.id)
            if o not in dl or o.id not in dl or not dl.has_id(o.id):
                bad.append("membership(%s) wrong" % o.id)
        except Exception as e:
            bad.append("lookup of %s raised %s" % (o.id, type(e).__name__))
    if "absent" in dl or dl.has_id("absent"):
        bad.append("absent id reported present")
    try:
        dl.index("absent")
        bad.append("index(absent) did not raise")
    except ValueError:
        pass
    try:
        dl.get_by_id("absent")
        bad.append("get_by_id(absent) did not raise")
    except KeyError:
        pass
    if len(dl) != len(ids) or [o.id for o in dl] != ids:
        bad.append("iteration/len disagree")
    return bad


def _payload(E, name, n, existing):
    """an object whose id is a symbolic index into the pool x0..x{n+1}: present, absent ids occur;
    'same' = the very object already in the list"""
    k = int(E.int(name, 0, n + 1))
    if k < n and E.flag(name + ".same_object"):
        return existing[k]
    return Obj("x%d" % k)


def _sl(E, name, n):
    def fld(f):
        if E.flag("%s.%s.none" % (name, f)):
            return None
        return E.int("%s.%s" % (name, f), -n - 1, n + 1)
    step = E.pick(name + ".step", [None, 1, -1, 2, -2])
    return slice(fld("start"), fld("stop"), step)


def _cslice(s):
    f = lambda x: None if x is None else int(x)  # noqa: E731
    return slice(f(s.start), f(s.stop), f(s.step))


OPS = ["append", "insert", "extend", "iadd", "add", "union", "isub", "setitem_int", "setitem_slice",
       "delitem_int", "delitem_slice", "pop", "pop_i", "remove", "remove_id", "sort", "reverse", "copy",
       "deepcopy", "pickle", "getslice", "query", "plus", "minus", "ctor", "lookups", "get_by_any", "getattr_dir"]


def _uniq_ok(objs):
    ids = [o.id for o in objs]
    return len(set(ids)) == len(ids)


def c15_step(E, nmax=3, ops=OPS):
    n = int(E.int("n", 0, nmax))
    objs = [Obj("x%d" % i) for i in range(n)]
    dl = DictList(objs)
    ref = list(objs)
    op = E.pick("op", ops)
    E.note(op=op, n=n)
    pre = coherent(dl)
    E.prove(not pre, "constructed-state-valid", problems=pre[:2])
    must_raise = None      # None: either; True: the list model requires an exception
    expect = None          # expected contents when the operation succeeds
    result_check = None
    mutates = True
    try:
        if op == "append":
            x = _payload(E, "x", n, objs)
            must_raise = any(o.id == x.id for o in ref)
            expect = ref + [x]
            call = lambda: dl.append(x)  # noqa: E731
        elif op == "insert":
            i = E.int("i", -n - 2, n + 2)
            x = _payload(E, "x", n, objs)
            must_raise = any(o.id == x.id for o in ref)

            def call():
                dl.insert(i, x)
            expect = lambda: (lambda r: (r.insert(int(i), x), r)[1])(list(ref))  # noqa: E731
        elif op in ("extend", "iadd", "add", "union"):
            k = 1 if op == "add" else E.choice("len", 3)
            L = [_payload(E, "p%d" % j, n, objs) for j in range(k)]
            if op == "union":
                must_raise = False
                exp = list(ref)
                for o in L:
                    if all(o.id != e.id for e in exp):
                        exp.append(o)
                expect = exp
                call = lambda: dl.union(L)  # noqa: E731
            else:
                must_raise = not _uniq_ok(ref + L)
                expect = ref + L
                if op == "extend":
                    call = lambda: dl.extend(L)  # noqa: E731
                elif op == "iadd":
                    def call():
                        d2 = dl
                        d2 += L
                else:
                    call = lambda: dl.add(L[0])  # noqa: E731
        elif op == "isub":
            k = E.choice("len", 3)
            L = [_payload(E, "p%d" % j, n, objs) for j in range(k)]
            # each item named by the object or by its identifier (index() accepts both): the same element may be named twice
            # in two forms
            forms = [E.pick("form%d" % j, ["object", "id"]) for j in range(k)]
            arg = [(o if f == "object" else o.id) for o, f in zip(L, forms)]
            exp = list(ref)
            bad = False
            for o, f in zip(L, forms):
                hit = [e for e in exp if e.id == o.id]
                if not hit or (f == "object" and hit[0] is not o):
                    bad = True
                    break
                exp.remove(hit[0])
            must_raise = bad
            expect = exp

            def call():
                d2 = dl
                d2 -= arg
        elif op == "setitem_int":
            i = E.int("i", -n - 2, n + 2)
            x = _payload(E, "x", n, objs)

            def call():
                dl[i] = x

            def expect():
                r = list(ref)
                r[int(i)] = x
                return r
            must_raise = lambda: (not (-n <= int(i) < n)) or any(  # noqa: E731
                o.id == x.id for j, o in enumerate(ref) if j != int(i) % n)
        elif op == "setitem_slice":
            s = _sl(E, "s", n)
            k = E.choice("len", 3)
            L = [_payload(E, "p%d" % j, n, objs) for j in range(k)]

            def call():
                dl[s] = L

            def expect():
                r = list(ref)
                r[_cslice(s)] = L
                return r

            def must_raise():
                r = list(ref)
                try:
                    r[_cslice(s)] = L
                except ValueError:
                    return True
                return not _uniq_ok(r)
        elif op == "delitem_int":
            i = E.int("i", -n - 2, n + 2)

            def call():
                del dl[i]

            def expect():
                r = list(ref)
                del r[int(i)]
                return r
            must_raise = lambda: not (-n <= int(i) < n)  # noqa: E731
        elif op == "delitem_slice":
            s = _sl(E, "s", n)

            def call():
                del dl[s]

            def expect():
                r = list(ref)
                del r[_cslice(s)]
                return r
            must_raise = False
        elif op == "pop":
            must_raise = (n == 0)
            expect = ref[:-1]
            result_check = lambda res: res is ref[-1]  # noqa: E731
            call = lambda: dl.pop()  # noqa: E731
        elif op == "pop_i":
            i = E.int("i", -n - 2, n + 2)
            call = lambda: dl.pop(i)  # noqa: E731

            def expect():
                r = list(ref)
                r.pop(int(i))
                return r
            must_raise = lambda: not (-n <= int(i) < n)  # noqa: E731
            result_check = lambda res: res is ref[int(i)]  # noqa: E731
        elif op in ("remove", "remove_id"):
            x = _payload(E, "x", n, objs)
            present = [e for e in ref if e.id == x.id]
            if op == "remove":
                must_raise = not present or present[0] is not x
                call = lambda: dl.remove(x)  # noqa: E731
            else:
                must_raise = not present
                call = lambda: dl.remove(x.id)  # noqa: E731
            expect = [e for e in ref if e.id != x.id]
        elif op == "sort":
            rev = E.flag("reverse")
            dl.reverse()   # start from a non-sorted valid state
            ref.reverse()
            must_raise = False
            expect = sorted(ref, key=lambda o: o.id, reverse=rev)
            call = lambda: dl.sort(reverse=rev)  # noqa: E731
        elif op == "reverse":
            must_raise = False
            expect = ref[::-1]
            call = lambda: dl.reverse()  # noqa: E731
        else:
            mutates = False
            must_raise = False
            expect = list(ref)
            if op in ("copy", "deepcopy", "pickle", "getslice", "query", "plus", "minus", "ctor"):
                if op == "copy":
                    call = lambda: copy.copy(dl)  # noqa: E731
                    exp_res = lambda: list(ref)  # noqa: E731
                elif op == "deepcopy":
                    call = lambda: copy.deepcopy(dl)  # noqa: E731
                    exp_res = lambda: [o.id for o in ref]  # noqa: E731
                elif op == "pickle":
                    call = lambda: pickle.loads(pickle.dumps(dl))  # noqa: E731
                    exp_res = lambda: [o.id for o in ref]  # noqa: E731
                elif op == "getslice":
                    s = _sl(E, "s", n)
                    call = lambda: dl[s]  # noqa: E731
                    exp_res = lambda: ref[_cslice(s)]  # noqa: E731
                elif op == "query":
                    kind = E.pick("query", ["regex", "function", "attribute"])
                    if kind == "regex":
                        call = lambda: dl.query("x[01]")  # noqa: E731
                        exp_res = lambda: [o for o in ref if o.id in ("x0", "x1")]  # noqa: E731
                    elif kind == "function":
                        call = lambda: dl.query(lambda o: o.id != "x0")  # noqa: E731
                        exp_res = lambda: [o for o in ref if o.id != "x0"]  # noqa: E731
                    else:
                        call = lambda: dl.query(lambda i: i.endswith("1"), "id")  # noqa: E731
                        exp_res = lambda: [o for o in ref if o.id.endswith("1")]  # noqa: E731
                elif op == "plus":
                    k = E.choice("len", 3)
                    L = [_payload(E, "p%d" % j, n, objs) for j in range(k)]
                    must_raise = not _uniq_ok(ref + L)
                    call = lambda: dl + L  # noqa: E731
                    exp_res = lambda: ref + L  # noqa: E731
                elif op == "minus":
                    k = E.choice("len", 2)
                    L = [objs[int(E.int("m%d" % j, 0, n - 1))] for j in range(k)] if n else []
                    must_raise = len(set(id(o) for o in L)) != len(L)
                    call = lambda: dl - L  # noqa: E731
                    exp_res = lambda: [o for o in ref if all(o is not q for q in L)]  # noqa: E731
                else:
                    call = lambda: DictList(dl)  # noqa: E731
                    exp_res = lambda: list(ref)  # noqa: E731

                def result_check(res):
                    want = exp_res()
                    if want and isinstance(want[0], str):
                        ok = [o.id for o in res] == want and all(a is not b for a, b in zip(res, ref))
                    else:
                        ok = len(res) == len(want) and all(a is b for a, b in zip(res, want))
                    if not ok or not isinstance(res, DictList):
                        return False
                    if coherent(res):
                        return False
                    # independence: mutating the result must not change the source, and vice versa
                    res.append(Obj("fresh"))
                    if res:
                        res.pop(0)
                    return [o for o in list.__iter__(dl)] == ref and not coherent(dl) and not coherent(res)
            elif op == "lookups":
                x = _payload(E, "x", n, objs)
                present = [e for e in ref if e.id == x.id]

                def call():
                    out = [x.id in dl, dl.has_id(x.id), (x in dl)]
                    try:
                        out.append(dl.index(x.id))
                    except ValueError:
                        out.append("VE")
                    try:
                        out.append(dl.get_by_id(x.id))
                    except KeyError:
                        out.append("KE")
                    try:
                        out.append(dl.index(x))
                    except ValueError:
                        out.append("VE")
                    return out

                def result_check(res):
                    if present:
                        return res[:5] == [True, True, True, ref.index(present[0]), present[0]] and \
                            res[5] == (ref.index(present[0]) if present[0] is x else "VE")
                    return res == [False, False, False, "VE", "KE", "VE"]
            elif op == "get_by_any":
                i = int(E.int("i", -n - 1, n + 1))
                must_raise = not (-n <= i < n)
                call = lambda: dl.get_by_any([i, "x0", objs[0]] if n else [i])  # noqa: E731
                result_check = lambda res: res == ([ref[i], ref[0], ref[0]] if n else [])  # noqa: E731
            else:
                def call():
                    return (getattr(dl, "x0", None), "x0" in dir(dl), hasattr(dl, "absent"))
                result_check = lambda res: res == ((ref[0] if n else None), n > 0, False)  # noqa: E731
    except IndexError:
        raise
    # ---- run
    raised = None
    res = None
    try:
        res = call()
    except (ValueError, IndexError, KeyError, TypeError) as e:
        raised = e
    mr = must_raise() if callable(must_raise) else must_raise
    after = list(list.__iter__(dl))
    if raised is not None:
        E.prove(len(after) == len(ref) and all(a is b for a, b in zip(after, ref)),
                "raising-operation-leaves-list-unchanged", exc=type(raised).__name__,
                after=[getattr(o, "id", None) for o in after])
        bad = coherent(dl) if all(o is not None for o in after) else ["placeholder left in list"]
        E.prove(not bad, "coherent-after-raising-operation", exc=type(raised).__name__, problems=bad[:2])
    else:
        E.prove(not mr, "list-model-failure-must-raise")
        if not mr:
            want = expect() if callable(expect) else expect
            E.prove(len(after) == len(want) and all(a is b for a, b in zip(after, want)), "contents=list-model",
                    after=[o.id for o in after], want=[o.id for o in want])
            bad = coherent(dl)
            E.prove(not bad, "index-exact-after-operation", problems=bad[:2])
            if result_check is not None:
                E.prove(bool(result_check(res)), "result=list-model")


def c15_pairs(E):
    """two operations in a row (direct, non-inductive confirmation), n <= 2"""
    n = int(E.int("n", 0, 2))
    objs = [Obj("x%d" % i) for i in range(n)]
    dl = DictList(objs)
    ops = []
    for step in range(2):
        op = E.pick("op%d" % step, ["append", "insert", "pop_i", "delitem_int", "setitem_int", "extend", "reverse"])
        ops.append(op)
        m = len(dl)
        try:
            if op == "append":
                dl.append(_payload(E, "x%d" % step, m, list(dl)))
            elif op == "insert":
                dl.insert(E.int("i%d" % step, -m - 1, m + 1), _payload(E, "x%d" % step, m, list(dl)))
            elif op == "pop_i":
                dl.pop(E.int("i%d" % step, -m - 1, m + 1))
            elif op == "delitem_int":
                del dl[E.int("i%d" % step, -m - 1, m + 1)]
            elif op == "setitem_int":
                dl[E.int("i%d" % step, -m - 1, m + 1)] = _payload(E, "x%d" % step, m, list(dl))
            elif op == "extend":
                dl.extend([_payload(E, "x%d" % step, m, list(dl)), _payload(E, "y%d" % step, m, list(dl))])
            else:
                dl.reverse()
        except (ValueError, IndexError, KeyError):
            pass
        E.note(ops=list(ops))
        bad = coherent(dl) if all(o is not None for o in list.__iter__(dl)) else ["placeholder"]
        E.prove(not bad, "coherent-after-sequence", problems=bad[:2], ops=list(ops))


HARNESSES = [
    H("c15_step", c15_step, quick=dict(max_paths=60000, time_budget=60), thorough=dict(max_paths=2000000, time_budget=500),
      witness_every=40,
      bounds="pre-state: any valid DictList with n<=3 elements (thorough: same, deeper budget); one of 28 operations; "
             "int indices in [-n-2,n+2]; slice start/stop in [-n-1,n+1] or None, step in {None,1,-1,2,-2}; payload ids "
             "drawn from x0..x{n+1} (present, absent, duplicate) as new objects or the very object in the list; "
             "payload lists of length <= 2"),
    H("c15_pairs", c15_pairs, tiers=("thorough",), thorough=dict(max_paths=2000000, time_budget=300), witness_every=200,
      bounds="n<=2, all pairs of 7 mutating operations with symbolic indices and payloads"),
]


def main(tier, seed, args):
    """vsym decides; in the thorough tier CrossHair runs the single-index contracts as an independent second engine"""
    import json
    from vlib import chdriver, runner
    if args.replay:
        return runner.replay_file(args.replay, HARNESSES)
    extra = None
    lines = []
    viol = 0
    if tier == "thorough" and not args.only:
        ch = chdriver.run("c15_dictlist.py", 60)
        for r in ch:
            if r["condition"].startswith("_twin"):
                r["twin_ok"] = r["verdict"] == "counterexample"
                continue
            if r["verdict"] == "counterexample":
                a, bad = chdriver.replay("c15_dictlist.py", r["condition"], r["counterexample"])
                r["replayed_on_real_code"] = bad
                if bad is True:
                    path = runner.write_replay(PID, "crosshair", dict(label="crosshair:" + r["condition"], inputs={"args": a},
                                                                      detail=dict(condition=r["condition"])), {})
                    lines.append("VIOLATION property=%s replay=%s\n  crosshair %s counterexample %r" % (PID, path, r["condition"], a))
                    viol += 1
        extra = dict(crosshair=ch, crosshair_note="second engine; 'no-counterexample-within-budget' is not a failure")
    code = runner.run_check(PID, tier, HARNESSES, seed=seed, only=args.only.split(",") if args.only else None,
                            extra_evidence=extra)
    for l in lines:
        print(l)
    if extra:
        print("C15 crosshair: %s" % json.dumps({r["condition"]: r["verdict"] for r in extra["crosshair"]}))
    return 1 if viol else code
