"""C20 - summaries report the fluxes of the solution they describe.

Real code executed: ModelSummary._generate, MetaboliteSummary._generate, ReactionSummary._generate (pandas on
object columns holding proxies: masks fork through bool()), with a *symbolic Solution* (fluxes are symbolic
reals assumed steady-state and in bounds) and optional symbolic FVA frame.  Rendering (to_string / to_html /
to_frame) formats floats and is exercised on the concrete witness replays only.
Tolerance: summaries zero values below model.tolerance (documented); obligations are stated with that rule.
"""
import pandas as pd
import z3
from cobra import Solution
from cobra.summary import MetaboliteSummary, ModelSummary, ReactionSummary

from vlib import env, networks
from vlib.runner import H
from vlib.vsym import SymReal, lift, rv, zbool

PID = "C20"
TOL = 1e-7


def _sym_solution(E, m, lo=-10, hi=10):
    ids = [r.id for r in m.reactions]
    v = {i: E.real("v_" + i, lo, hi) for i in ids}
    # steady state and bounds (the solution describes this model)
    for met in m.metabolites:
        tot = rv(0)
        for r in met.reactions:
            tot = tot + lift(r._metabolites[met]) * lift(v[r.id])
        E.assume(tot == 0 if E.symbolic else True)
    for r in m.reactions:
        E.assume(E.all_of([E.le(r.lower_bound, v[r.id]), E.le(v[r.id], r.upper_bound)]) if E.symbolic else True)
    # tolerance discipline: a flux is 0 or at least 1e-3 in magnitude
    for i in ids:
        if E.symbolic:
            E.assume(z3.Or(lift(v[i]) == 0, lift(v[i]) >= rv(1e-3), lift(v[i]) <= rv(-1e-3)))
    fl = pd.Series(index=ids, data=[v[i] for i in ids], name="fluxes", dtype=object if E.symbolic else float)
    obj = sum((c * v[r.id] for r, c in _objective(m).items()), 0)
    # the given solution need not be an optimal one (time limit hit, hand-built, taken from elsewhere): a summary describes
    # the solution it is given
    status = E.pick("given_solution_status", ["optimal", "time_limit"])
    sol = Solution(objective_value=obj, status=status, fluxes=fl,
                   reduced_costs=pd.Series(index=ids, data=[0.0] * len(ids)),
                   shadow_prices=pd.Series(index=[x.id for x in m.metabolites], data=[0.0] * len(m.metabolites)))
    return sol, v


def _objective(m):
    from cobra.util.solver import linear_reaction_coefficients
    return linear_reaction_coefficients(m)


def _zeroed(E, x):
    """documented display rule: |x| < tolerance is shown as 0 (band excluded by the tolerance discipline)"""
    return x


def _sym_fva(E, m, v, ids):
    lo, hi = {}, {}
    for i in ids:
        lo[i] = E.real("fmin_" + i, -12, 12)
        hi[i] = E.real("fmax_" + i, -12, 12)
        E.assume(E.all_of([E.le(lo[i], v[i]), E.le(v[i], hi[i])]))
        if E.symbolic:
            for b in (lo[i], hi[i]):
                E.assume(z3.Or(lift(b) == 0, lift(b) >= rv(1e-3), lift(b) <= rv(-1e-3)))
    return pd.DataFrame({"minimum": pd.Series(lo, dtype=object if E.symbolic else float),
                         "maximum": pd.Series(hi, dtype=object if E.symbolic else float)}, index=ids), lo, hi


def _summary(E, cls, fva=None, **kw):
    """build the summary; optionally an earlier summary was built from the very same solution and FVA frame objects.
    The caller's FVA frame is proved unchanged."""
    snap = None if fva is None else {(i, c): fva.at[i, c] for i in fva.index for c in fva.columns}
    if E.flag("same_arguments_summarised_before"):
        cls(fva=fva, **kw)
    out = cls(fva=fva, **kw)
    if snap is not None:
        now = {(i, c): fva.at[i, c] for i in fva.index for c in fva.columns}
        E.prove(set(now) == set(snap) and E.all_of([E.eq(now[k], snap[k]) for k in snap if k in now]),
                "callers-fva-frame-unchanged")
    return out


def _render(E, s):
    """concrete replays only (float formatting): every rendering works, repeatedly and with names on and off, and
    rendering does not change the summary's own tables"""
    if E.symbolic:
        return
    tabs = [n for n in ("uptake_flux", "secretion_flux", "producing_flux", "consuming_flux") if hasattr(s, n)]
    before = {n: getattr(s, n).copy(deep=True) for n in tabs}
    try:
        for names in (True, False, True):
            s.to_string(names=names)
            s.to_html(names=names)
        s.to_frame()
        s._repr_html_()
        E.prove(True, "renders-without-error")
    except Exception as e:
        E.prove(False, "renders-without-error", exc=type(e).__name__, msg=str(e)[:200])
    changed = [n for n in tabs if not getattr(s, n).equals(before[n])]
    E.prove(not changed, "rendering-leaves-the-summary-unchanged", tables=changed)


def c20_model(E):
    env.for_path(E)
    tid = E.pick("template", ["T5", "T7"])
    m = networks.build(tid)
    obj = networks.T[tid]["objectives"][-1]
    m.objective = {m.reactions.get_by_id(r): c for r, c in obj.items()}
    if E.flag("two_boundary_reactions_on_one_metabolite"):
        # e.g. a demand next to a sink / an exchange: each boundary reaction is listed on its own
        met0 = m.metabolites.get_by_id("A")
        m.add_boundary(met0, type="demand")
    sol, v = _sym_solution(E, m)
    boundary = sorted(r.id for r in m.reactions if r.boundary)
    use_fva = E.flag("fva_frame")
    fva = None
    if use_fva:
        fva, lo, hi = _sym_fva(E, m, v, boundary)
    E.note(template=tid, fva=use_fva)
    s = _summary(E, ModelSummary, model=m, solution=sol, fva=fva)
    up, sec = s.uptake_flux, s.secretion_flux
    listed = list(up["reaction"]) + list(sec["reaction"])
    E.prove(sorted(listed) == boundary, "every-boundary-reaction-exactly-once", listed=sorted(listed))
    for rid in boundary:
        r = m.reactions.get_by_id(rid)
        (met, coef), = r.metabolites.items()
        want = coef * v[rid]
        in_up = rid in list(up["reaction"])
        row = (up if in_up else sec)
        row = row[row["reaction"] == rid].iloc[0]
        E.prove(E.eq(row["flux"], want), "listed-flux=flux*coefficient", reaction=rid)
        E.prove(row["metabolite"] == met.id, "listed-metabolite", reaction=rid)
        # side: positive scaled flux = uptake table, negative = secretion, zero by coefficient sign
        side = E.any_of([E.all_of([lift(want) > 0, in_up]), E.all_of([lift(want) < 0, not in_up]),
                         E.all_of([lift(want) == 0, in_up == (coef > 0)])]) if E.symbolic else \
            ((want > TOL and in_up) or (want < -TOL and not in_up) or (abs(want) <= TOL and in_up == (coef > 0)))
        E.prove(side, "side-by-sign-of-net-exchange", reaction=rid)
        if use_fva:
            a, b = coef * lo[rid], coef * hi[rid]
            wmin, wmax = (a, b) if coef > 0 else (b, a)
            E.prove(E.all_of([E.eq(row["minimum"], wmin), E.eq(row["maximum"], wmax)]), "fva-range-scaled-like-flux",
                    reaction=rid)
    tot = sum((c * v[r] for r, c in obj.items()), 0)
    E.prove(E.eq(s._objective_value, tot), "objective-value-of-the-solution")
    _render(E, s)


def c20_metabolite(E):
    env.for_path(E)
    tid = E.pick("template", ["T5", "T7"])
    m = networks.build(tid)
    obj = networks.T[tid]["objectives"][-1]
    m.objective = {m.reactions.get_by_id(r): c for r, c in obj.items()}
    sol, v = _sym_solution(E, m)
    from cobra import Metabolite
    m.add_metabolites([Metabolite("LONE", compartment="c")])       # a metabolite that takes part in no reaction
    mets = [x.id for x in m.metabolites]
    mid = mets[E.choice("metabolite", len(mets), mets)]
    met = m.metabolites.get_by_id(mid)
    if mid == "LONE":
        # nothing produces or consumes it: both tables are empty and the summary still renders
        try:
            s0 = MetaboliteSummary(metabolite=met, model=m, solution=sol, fva=None)
        except Exception as e:
            E.prove(False, "summary-of-a-metabolite-without-reactions", exc=type(e).__name__, msg=str(e)[:200])
            return
        E.prove(len(s0.producing_flux) == 0 and len(s0.consuming_flux) == 0, "every-reaction-of-the-metabolite-exactly-once",
                listed=list(s0.producing_flux["reaction"]) + list(s0.consuming_flux["reaction"]))
        _render(E, s0)
        return
    rxns = sorted(r.id for r in met.reactions)
    use_fva = E.flag("fva_frame")
    fva = None
    if use_fva:
        fva, lo, hi = _sym_fva(E, m, v, rxns)
    E.note(template=tid, metabolite=mid, fva=use_fva)
    # paths on which every flux of a side is zero divide 0/0 (NaN in float columns): percentages undefined there
    scaled = {rid: m.reactions.get_by_id(rid).get_coefficient(mid) * v[rid] for rid in rxns}
    if E.symbolic:
        E.assume(z3.Or(*[lift(x) > 0 for x in scaled.values()]))
        E.assume(z3.Or(*[lift(x) < 0 for x in scaled.values()]))
    else:
        if not any(x > TOL for x in scaled.values()) or not any(x < -TOL for x in scaled.values()):
            return
    s = _summary(E, MetaboliteSummary, metabolite=met, model=m, solution=sol, fva=fva)
    pro, con = s.producing_flux, s.consuming_flux
    listed = list(pro["reaction"]) + list(con["reaction"])
    E.prove(sorted(listed) == rxns, "every-reaction-of-the-metabolite-exactly-once", listed=sorted(listed))
    ptot, ctot = rv(0), rv(0)
    for rid in rxns:
        coef = m.reactions.get_by_id(rid).get_coefficient(mid)
        want = scaled[rid]
        in_pro = rid in list(pro["reaction"])
        row = (pro if in_pro else con)
        row = row[row["reaction"] == rid].iloc[0]
        E.prove(E.eq(row["flux"], want), "listed-flux=flux*coefficient", reaction=rid)
        side = E.any_of([E.all_of([lift(want) > 0, in_pro]), E.all_of([lift(want) < 0, not in_pro]),
                         E.all_of([lift(want) == 0, in_pro == (coef > 0)])]) if E.symbolic else \
            ((want > TOL and in_pro) or (want < -TOL and not in_pro) or (abs(want) <= TOL and in_pro == (coef > 0)))
        E.prove(side, "side-by-sign", reaction=rid)
        if in_pro:
            ptot = ptot + lift(row["flux"])
        else:
            ctot = ctot + lift(row["flux"])
        if use_fva:
            a, b = coef * lo[rid], coef * hi[rid]
            wmin, wmax = (a, b) if coef > 0 else (b, a)
            E.prove(E.all_of([E.eq(row["minimum"], wmin), E.eq(row["maximum"], wmax)]), "fva-range-scaled-like-flux",
                    reaction=rid)
    E.prove(E.eq(SymReal(ptot) if E.symbolic else ptot, SymReal(-ctot) if E.symbolic else -ctot), "production=consumption")
    for tab, name in ((pro, "producing"), (con, "consuming")):
        tot = rv(0)
        for p in tab["percent"]:
            tot = tot + lift(p)
        E.prove(E.eq(SymReal(tot) if E.symbolic else tot, 1), "percentages-sum-to-one", side=name)
    _render(E, s)


def c20_reaction(E):
    env.for_path(E)
    m = networks.build("T7")
    m.objective = {m.reactions.DM_B: 2}
    sol, v = _sym_solution(E, m)
    ids = [r.id for r in m.reactions]
    rid = ids[E.choice("reaction", len(ids), ids)]
    use_fva = E.flag("fva_frame")
    idle = bool(v[rid] == 0)          # both an idle and an active reaction are rendered
    E.note(reaction=rid, idle=idle)
    fva = None
    if use_fva:
        fva, lo, hi = _sym_fva(E, m, v, [rid])
    s = _summary(E, ReactionSummary, reaction=m.reactions.get_by_id(rid), model=m, solution=sol, fva=fva)
    fr = s._flux
    E.prove(list(fr.index) == [rid], "one-row-for-the-reaction")
    E.prove(E.eq(fr.at[rid, "flux"], v[rid]), "listed-flux=solution-flux")
    if use_fva:
        E.prove(E.all_of([E.eq(fr.at[rid, "minimum"], lo[rid]), E.eq(fr.at[rid, "maximum"], hi[rid])]), "fva-range-shown")
    _render(E, s)


def c20_fva_fraction(E):
    """model.summary(fva=<fraction>): the ranges shown are the true FVA ranges at that fraction, scaled by the boundary
    coefficient like the flux (min/max swapped for a negative coefficient) - also for a boundary reaction whose bounds are equal"""
    from checks.c05 import oracle_set
    env.for_path(E)
    m = networks.build("T7")
    which = E.pick("symbolic_reaction", ["EX_A", "DM_B"])
    networks.symbolic_bounds(E, m, which=[which], delta=0.01)
    obj = networks.T["T7"]["objectives"][0]
    m.objective = {m.reactions.get_by_id(r): c for r, c in obj.items()}
    fraction = E.pick("fva", [1.0, 0.5])
    E.note(symbolic=which, fva=fraction)
    status, opt, setp = oracle_set(E, m, obj, "max", fraction)
    if status != "optimal":
        return
    lp, P = setp
    try:
        s = m.summary(fva=fraction)
    except ZeroDivisionError:
        return
    except Exception as e:
        E.prove(False, "summary-available-on-feasible-model", exc=type(e).__name__, msg=str(e)[:200])
        return
    rows = {row["reaction"]: row for t in (s.uptake_flux, s.secretion_flux) for _, row in t.iterrows()}
    boundary = sorted(r.id for r in m.reactions if r.boundary)
    E.prove(sorted(rows) == boundary, "every-boundary-reaction-exactly-once", listed=sorted(rows))
    tol = rv(0) if E.symbolic else rv(1e-6)
    for rid in boundary:
        if rid not in rows:
            continue
        (met, coef), = m.reactions.get_by_id(rid).metabolites.items()
        lo, hi = lift(rows[rid]["minimum"]), lift(rows[rid]["maximum"])
        w = lp.fresh_point(E, "in_" + rid)
        sc = w[rid] * rv(coef)
        E.prove(z3.Implies(P(w), z3.And(sc >= lo - tol, sc <= hi + tol)), "fva-range-contains-every-scaled-flux", reaction=rid)
        for end, val in (("minimum", lo), ("maximum", hi)):
            a = lp.fresh_point(E, "att_%s_%s" % (rid, end))
            E.prove_exists(list(a.values()), z3.And(P(a), a[rid] * rv(coef) - val <= tol + rv(TOL), val - a[rid] * rv(coef) <= tol + rv(TOL)),
                           "fva-range-end-attained", reaction=rid, end=end)


def c20_default_solution(E):
    """solution defaulted to pFBA: the summary describes the model as it stands *now* - also when the same model
    was summarised before and its stoichiometry (not its bounds or objective) was edited since"""
    from vlib.lpspec import fba_lp
    env.for_path(E)
    m = networks.build("T7")
    networks.symbolic_bounds(E, m, which=[E.pick("symbolic_reaction", ["EX_A", "DM_B"])], delta=0.01)
    obj = networks.T["T7"]["objectives"][0]
    m.objective = {m.reactions.get_by_id(r): c for r, c in obj.items()}
    earlier = E.flag("summarised_before_a_stoichiometry_edit")
    kind = E.pick("summary", ["model", "metabolite", "reaction"])
    E.note(earlier=earlier, kind=kind)

    def make():
        if kind == "model":
            return m.summary()
        if kind == "metabolite":
            return m.metabolites.B.summary()
        return m.reactions.DM_B.summary()
    if earlier:
        try:
            make()
        except Exception:
            return      # infeasible instance
        m.reactions.R1.add_metabolites({m.metabolites.B: 1})      # A2 --> 2 B now; bounds and objective untouched
    lp = fba_lp(m)
    status, opt, _, _ = lp.optimum(E, obj, "max", name="oracle")
    try:
        s = make()
    except ZeroDivisionError:
        return      # a whole side of the metabolite balance is zero: 0/0 percentages, outside the claim (see c20_metabolite)
    except Exception as e:
        E.prove(status != "optimal", "summary-available-on-feasible-model", exc=type(e).__name__)
        return
    if status != "optimal":
        return
    if kind == "model":
        E.prove(E.eq(s._objective_value, opt), "objective-value=optimum-of-the-current-model")
        listed = {row["reaction"]: row["flux"] for t in (s.uptake_flux, s.secretion_flux) for _, row in t.iterrows()}
        # the listed boundary fluxes belong to a steady-state optimum of the current model
        w = lp.fresh_point(E, "w")
        cons = [lp.feasible(w), lp.lin(obj, w) == opt]
        for rid, f in listed.items():
            (met, coef), = m.reactions.get_by_id(rid).metabolites.items()
            cons.append(_eqz(E, w[rid] * coef, f))
        wit = None
        if E.symbolic and E.solve_log:
            rec = E.solve_log[-1]
            wit = {w[r.id]: rec["x"][r.id] - rec["x"][r.reverse_id] for r in m.reactions}
        E.prove_exists(list(w.values()), z3.And(*cons), "listed-fluxes-belong-to-an-optimum-of-the-current-model", witness=wit)
    elif kind == "metabolite":
        prod = sum((lift(x) for x in s.producing_flux["flux"]), rv(0))
        cons_ = sum((lift(x) for x in s.consuming_flux["flux"]), rv(0))
        # the summary sets fluxes below the model tolerance to zero: balance up to that rounding
        d = lift(prod + cons_)
        E.prove(z3.And(d <= rv(1e-6), d >= rv(-1e-6)), "producing-and-consuming-balance")
    else:
        f = s._flux["flux"].iloc[0] if hasattr(s, "_flux") else None
        if f is not None:
            # DM_B carries the whole objective: flux * 2 = optimum
            E.prove(E.eq(2 * lift(f), opt), "reaction-flux-consistent-with-the-current-optimum")
    _render(E, s)


def _eqz(E, a, b):
    if E.symbolic:
        return lift(a) == lift(b)
    return z3.And(lift(a) - lift(b) <= rv(1e-6), lift(b) - lift(a) <= rv(1e-6))


HARNESSES = [
    H("c20_fva_fraction", c20_fva_fraction, quick=dict(max_paths=4000, time_budget=40), thorough=dict(max_paths=40000, time_budget=200),
      witness_every=5,
      bounds="T7, model.summary(fva=1.0 / 0.5) with the solution defaulted; one boundary reaction with symbolic bounds (equal bounds "
             "included): shown ranges = oracle FVA ranges scaled by the boundary coefficient (sound and attained)"),
    H("c20_model", c20_model, quick=dict(max_paths=20000, time_budget=60, witnesses=60),
      thorough=dict(max_paths=300000, time_budget=300, witnesses=300), witness_every=2,
      bounds="T5 (exchanges in both directions, sink, demand) and T7 (non-unit, negative coefficients); all fluxes symbolic in "
             "[-10,10], steady-state and in bounds, each 0 or |v|>=1e-3; with/without a symbolic FVA frame (min<=flux<=max)"),
    H("c20_metabolite", c20_metabolite, quick=dict(max_paths=20000, time_budget=60, witnesses=60),
      thorough=dict(max_paths=300000, time_budget=300, witnesses=300), witness_every=2,
      bounds="as c20_model, every metabolite; paths on which a whole side is zero (0/0 percentages) excluded"),
    H("c20_default_solution", c20_default_solution, quick=dict(max_paths=4000, time_budget=40, witnesses=40),
      thorough=dict(max_paths=20000, time_budget=80, witnesses=100), witness_every=2,
      bounds="T7 with one symbolic reaction; solution defaulted to pFBA (real pfba code on the stub); model / metabolite / "
             "reaction summary; fresh model, or summarised before and one stoichiometric coefficient edited since"),
    H("c20_reaction", c20_reaction, quick=dict(max_paths=4000, time_budget=30, witnesses=64),
      thorough=dict(max_paths=50000, time_budget=60, witnesses=200),
      witness_every=1, bounds="T7, every reaction, idle and active, with/without FVA frame; every path rendered on its witness"),
]
