"""C04 - FBA returns a true optimum, or a true verdict that none exists.

Real code executed: Model.optimize / slim_optimize, get_solution, Solution, check_solver_status,
assert_optimal, Reaction.flux / reduced_cost, Metabolite.shadow_price, bounds setters,
update_variable_bounds, set_objective - on the LP contract stub, all bounds symbolic.
Oracle: lpspec.fba_lp built from the Python objects + its own KKT system.
"""
import math

from cobra.exceptions import Infeasible, OptimizationError, Unbounded

from vlib import env, networks
from vlib.lpspec import fba_lp
from vlib.runner import H
from vlib.vsym import lift, rv

PID = "C04"


def lp_numbers_finite(E, m, label="LP-bounds-finite-or-None"):
    """optlang's contract: an infinite bound is None; a float inf handed to GLPK is read as a number"""
    from vlib.observe import lp_snapshot
    snap = lp_snapshot(m)
    bad = []
    for n, v in snap["variables"].items():
        for k in ("lb", "ub"):
            b = v[k]
            if isinstance(b, float) and (math.isinf(b) or math.isnan(b)):
                bad.append("%s.%s=%r" % (n, k, b))
    E.prove(not bad, label, what=bad[:4])


def _setup(E, templates, w=None, inf_on=None, lo=-10, hi=10):
    env.for_path(E)
    tid = E.pick("template", templates)
    m = networks.build(tid)
    t = networks.T[tid]
    obj = t["objectives"][E.choice("objective", len(t["objectives"]))]
    direction = E.pick("direction", ["max", "min"])
    ids = [r.id for r in m.reactions]
    if inf_on == "some" and tid == "T1":
        networks.symbolic_bounds(E, m, which=["EX_A", "DM_B"], lo=lo, hi=hi, inf=True)
        networks.symbolic_bounds(E, m, which=["R1"], lo=lo, hi=hi, inf="ub")
    elif inf_on and tid == "T1":
        networks.symbolic_bounds(E, m, lo=lo, hi=hi, inf=True)
    elif inf_on:
        k = E.choice("inf_reaction", len(ids), ids)
        for r in m.reactions:
            networks.symbolic_bounds(E, m, which=[r.id], lo=lo, hi=hi, inf=(r.id == ids[k]))
    else:
        which = ids if w is None else ids[:w]
        networks.symbolic_bounds(E, m, which=which, lo=lo, hi=hi)
    m.objective = {m.reactions.get_by_id(r): c for r, c in obj.items()}
    m.objective_direction = direction
    E.note(template=tid, objective=obj, direction=direction)
    return m, obj, direction


def _certify(E, m, sol, obj, sense, opt, tag=""):
    """obligations on an optimal Solution"""
    S = {met.id: {r.id: c for r, c in ((r, r._metabolites.get(met)) for r in m.reactions) if c is not None}
         for met in m.metabolites}
    v = {r.id: sol.fluxes[r.id] for r in m.reactions}
    # steady state and bounds
    for mid, row in S.items():
        tot = rv(0)
        for rid, c in row.items():
            tot = tot + lift(c) * lift(v[rid])
        E.prove(E.eq(tot, 0), "steady-state" + tag, met=mid)
    for r in m.reactions:
        E.prove(E.all_of([E.le(r.lower_bound, v[r.id]), E.le(v[r.id], r.upper_bound)]), "in-bounds" + tag,
                reaction=r.id)
    cv = rv(0)
    for rid, c in obj.items():
        cv = cv + lift(c) * lift(v[rid])
    E.prove(E.eq(sol.objective_value, cv), "objective_value=c.v" + tag)
    E.prove(E.eq(sol.objective_value, opt), "objective_value=true-optimum" + tag)
    # duals: shadow prices certify the optimum (complementary slackness with the returned fluxes)
    sgn = 1 if sense == "max" else -1
    y = {met.id: sol.shadow_prices[met.id] for met in m.metabolites}
    for r in m.reactions:
        d = lift(obj.get(r.id, 0))
        for mid, row in S.items():
            if r.id in row:
                d = d - lift(row[r.id]) * lift(y[mid])
        cs = []
        if not E.symbolic:
            # numeric replays: only assert slackness for clearly non-zero reduced costs
            thr = rv(1e-5)
            pos, neg = sgn * d > thr, sgn * d < -thr
        else:
            pos, neg = sgn * d > 0, sgn * d < 0
        ub, lb = r.upper_bound, r.lower_bound
        cs.append(E.implies(pos, E.eq(v[r.id], ub) if not (isinstance(ub, float) and math.isinf(ub)) else False))
        cs.append(E.implies(neg, E.eq(v[r.id], lb) if not (isinstance(lb, float) and math.isinf(lb)) else False))
        E.prove(E.all_of(cs), "shadow-prices-certify-optimum" + tag, reaction=r.id)
        if not E.prove(E.eq(sol.reduced_costs[r.id], d), "reduced_cost=c-S^T.y" + tag, what="reduced_cost"):
            # known finding (DESIGN.md section 6): the value is dual(forward) - dual(reverse) = exactly twice.
            # Pin that characterisation so that any *other* deviation is still reported.
            E.prove(E.eq(sol.reduced_costs[r.id], 2 * d), "reduced_cost-deviates-other-than-factor-2" + tag,
                    reaction=r.id)


def c04_fba(E, templates=("T1", "T2", "T7"), inf_on=False):
    m, obj, direction = _setup(E, templates, inf_on=inf_on)
    lp_numbers_finite(E, m)
    lp = fba_lp(m)
    status, opt, pt, duals = lp.optimum(E, obj, direction, name="oracle")
    E.note(oracle_status=status)
    # --- optimize()
    try:
        sol = m.optimize()
        raised = None
    except OptimizationError as e:
        sol, raised = None, e
    if status == "optimal":
        E.prove(raised is None and sol is not None and sol.status == "optimal", "status-optimal-when-optimum-exists",
                got=(sol.status if sol is not None else repr(raised)))
        if sol is not None and sol.status == "optimal":
            _certify(E, m, sol, obj, direction, opt)
            for r in m.reactions:
                E.prove(E.all_of([E.eq(r.flux, sol.fluxes[r.id]), E.eq(r.reduced_cost, sol.reduced_costs[r.id])]),
                        "accessors=solution", what="reaction")
            for met in m.metabolites:
                E.prove(E.eq(met.shadow_price, sol.shadow_prices[met.id]), "accessors=solution", what="metabolite")
    else:
        E.prove(sol is None or sol.status != "optimal", "never-optimal-when-no-optimum", oracle=status,
                got=(sol.status if sol is not None else None))
        # optimize(raise_error=True) must raise
        try:
            m.optimize(raise_error=True)
            E.prove(False, "raise_error-raises", oracle=status)
        except OptimizationError:
            E.prove(True, "raise_error-raises")
        # accessors must raise OptimizationError or (infeasible: has primals) return with a warning
        for what, get in (("flux", lambda: m.reactions[0].flux), ("reduced_cost", lambda: m.reactions[0].reduced_cost),
                          ("shadow_price", lambda: m.metabolites[0].shadow_price)):
            try:
                get()
                E.prove(status == "infeasible", "accessor-on-non-optimal", what=what, oracle=status)
            except OptimizationError:
                E.prove(True, "accessor-on-non-optimal")
            except Exception as e:  # anything else is not the documented exception
                E.prove(False, "accessor-on-non-optimal", what=what, oracle=status, exc=type(e).__name__)
    # --- objective_sense argument: direction restored, result is that direction's optimum
    other = "min" if direction == "max" else "max"
    E.prove(m.objective_direction == direction, "direction-unchanged")
    # --- slim_optimize
    ev = E.real("error_value", -5, 5)
    val = m.slim_optimize(error_value=ev)
    if status == "optimal":
        E.prove(E.eq(val, opt), "slim=true-optimum")
    else:
        E.prove(E.eq(val, ev), "slim-returns-error_value", oracle=status)
        val0 = m.slim_optimize(error_value=0.0)
        E.prove(isinstance(val0, float) and val0 == 0.0, "slim-returns-error_value", oracle=status, what="0.0")
        valn = m.slim_optimize()
        E.prove(isinstance(valn, float) and math.isnan(valn), "slim-returns-error_value", oracle=status, what="nan")
        try:
            m.slim_optimize(error_value=None)
            E.prove(False, "slim-raises-matching-exception", oracle=status, got="returned")
        except OptimizationError as e:
            want = Infeasible if status == "infeasible" else Unbounded
            E.prove(isinstance(e, want), "slim-raises-matching-exception", oracle=status, got=type(e).__name__)


def c04_after_history(E, k=1):
    """the optimum reported after a history of edits is the optimum of the model as it then stands (the oracle LP
    is rebuilt from the Python objects after the edits, so a solver problem that fell out of step shows as a wrong
    optimum, status or flux vector)"""
    from cobra.util.solver import linear_reaction_coefficients
    from vlib.ops import B, OPS, State, base_model
    env.for_path(E)
    S = State()
    m = base_model(E, sym_coef=False)
    real = E

    class ConcreteCoefficients(object):
        """the oracle LP needs a concrete matrix and objective (a symbolic coefficient times a flux is non-linear):
        numeric arguments that are not flux bounds take one of two concrete values, by exhaustive choice"""
        def __getattr__(self, k):
            return getattr(real, k)

        def real(self, name, lo=None, hi=None):
            if lo is None or hi is None or abs(lo) >= 20 or abs(hi) >= 20:
                return real.real(name, lo, hi)
            return real.pick(name, [hi, lo if lo != 0 else hi / 2.0])
    E_ops = ConcreteCoefficients()
    # operations that add user constraints (cons_vars, fix_objective) are left out: with an extra row the duals are those of
    # another problem than the flux-balance problem the oracle is built for
    names = [n for n in OPS if n not in ("cons_vars", "fix_objective", "copy", "merge", "detached_edit", "groups", "repair")]
    shape = E.pick("history", ["edits", "remove, edit the detached reaction, restore by leaving the context"])
    ctx = shape != "edits" or E.flag("inside_context_then_left")
    if ctx:
        m.__enter__()
    for i in range(k if shape == "edits" else 2):
        try:
            name = E.pick("edit%d" % i, names) if shape == "edits" else ("remove_reactions", "detached_edit")[i]
            OPS[name][0](E_ops, m, S)
        except Exception:
            return      # an operation failing outside its documented exceptions is C01/C02's to report
    if ctx and (shape != "edits" or E.flag("leave_before_optimizing")):
        try:
            m.__exit__(None, None, None)
        except Exception:
            return      # C03's to report
    if getattr(S, "asym_ok", None) or getattr(S, "undocumented", None) or any(l[2] and l[0].startswith("add_reactions") for l in S.log):
        return          # objectives outside c*(forward-reverse) have no oracle here; undocumented exceptions and the listed
                        # half-added-reaction finding are C01's subject.  An edit that raised a documented exception stays in:
                        # whatever it left behind, optimize() must still answer for the model as its objects now describe it
    obj = {r.id: c for r, c in linear_reaction_coefficients(m).items()}
    direction = m.objective_direction
    E.note(ops=[l[0] for l in S.log], objective=sorted(obj), direction=direction)
    lp = fba_lp(m)
    status, opt, pt, duals = lp.optimum(E, obj, direction, name="oracle")
    try:
        sol = m.optimize()
        raised = None
    except OptimizationError as e:
        sol, raised = None, e
    if status == "optimal":
        E.prove(raised is None and sol is not None and sol.status == "optimal", "status-optimal-when-optimum-exists",
                got=(sol.status if sol is not None else repr(raised)))
        if sol is not None and sol.status == "optimal":
            _certify(E, m, sol, obj, direction, opt, tag="")
    else:
        E.prove(raised is not None or sol.status != "optimal", "not-optimal-when-no-optimum", oracle=status,
                got=(sol.status if sol is not None else repr(raised)))


def c04_inf(E):
    """infinite bounds: T1 with the bounds of EX_A, DM_B and the upper bound of R1 finite-or-infinite (unbounded LPs occur)"""
    return c04_fba(E, templates=("T1",), inf_on="some")


def c04_inf_thorough(E):
    """T1 with every bound finite-or-infinite, T2 with one such reaction (every choice)"""
    return c04_fba(E, templates=("T1", "T2"), inf_on=True)


def c04_sense_snapshot(E):
    """optimize(objective_sense=...) and the snapshot clause, one symbolic reaction at a time"""
    env.for_path(E)
    tid = E.pick("template", ["T2", "T7"])
    m = networks.build(tid)
    obj = networks.T[tid]["objectives"][0]
    ids = [r.id for r in m.reactions]
    k = E.choice("sym_reaction", len(ids), ids)
    networks.symbolic_bounds(E, m, which=[ids[k]])
    m.objective = {m.reactions.get_by_id(r): c for r, c in obj.items()}
    direction = E.pick("direction", ["max", "min"])
    m.objective_direction = direction
    sense = E.pick("objective_sense", ["maximize", "minimize"])
    eff = "max" if sense == "maximize" else "min"
    E.note(template=tid, direction=direction, sense=sense)
    lp = fba_lp(m)
    status, opt, pt, duals = lp.optimum(E, obj, eff, name="oracle")
    try:
        sol = m.optimize(objective_sense=sense)
    except OptimizationError:
        sol = None
    E.prove(m.objective_direction == direction, "direction-restored-after-objective_sense")
    if status != "optimal":
        E.prove(sol is None or sol.status != "optimal", "never-optimal-when-no-optimum", oracle=status)
        return
    E.prove(sol is not None and sol.status == "optimal", "status-optimal-when-optimum-exists")
    if sol is None or sol.status != "optimal":
        return
    _certify(E, m, sol, obj, eff, opt, tag="")
    # get_solution for a selection (objects, ids are not accepted here; an empty selection is a selection): exactly the
    # requested entries, with the values of the full solution
    from cobra.core.solution import get_solution
    sel = E.pick("get_solution_selection", ["none", "empty", "first-reaction-and-last-metabolite"])
    if sel != "none":
        rs = [] if sel == "empty" else [m.reactions[0]]
        ms = [] if sel == "empty" else [m.metabolites[-1]]
        part = get_solution(m, reactions=rs, metabolites=ms)
        E.prove(list(part.fluxes.index) == [r.id for r in rs] and list(part.reduced_costs.index) == [r.id for r in rs]
                and list(part.shadow_prices.index) == [x.id for x in ms], "get_solution=requested-selection",
                fluxes=list(part.fluxes.index), shadow=list(part.shadow_prices.index))
        E.prove(E.all_of([E.eq(part.fluxes[r.id], sol.fluxes[r.id]) for r in rs if r.id in part.fluxes.index]
                         + [E.eq(part.objective_value, sol.objective_value)]), "get_solution=requested-selection:values")
    # snapshot: later edits / optimisations do not alter the Solution
    snap = (sol.objective_value, list(sol.fluxes), list(sol.reduced_costs), list(sol.shadow_prices), sol.status)
    j = E.choice("edit_reaction", len(ids), ids)
    r = m.reactions.get_by_id(ids[j])
    nb = E.real("new_ub", -10, 10)
    E.assume(E.le(r.lower_bound, nb))
    r.upper_bound = nb
    m.objective = {m.reactions[0]: 1}
    try:
        m.optimize()
    except OptimizationError:
        pass
    now = (sol.objective_value, list(sol.fluxes), list(sol.reduced_costs), list(sol.shadow_prices), sol.status)
    conds = [E.eq(snap[0], now[0]), snap[4] == now[4]]
    for a, b in zip(snap[1] + snap[2] + snap[3], now[1] + now[2] + now[3]):
        conds.append(E.eq(a, b))
    E.prove(E.all_of(conds), "solution-is-a-snapshot")


HARNESSES = [
    H("c04_fba", c04_fba, quick=dict(max_paths=6000, time_budget=70), thorough=dict(max_paths=100000, time_budget=420),
      bounds="templates T1,T2,T7 (3-4 reactions, 2 metabolites, non-unit stoichiometry in T7); every flux bound a "
             "symbolic real in [-10,10] with lb<=ub; every template objective (incl. two-reaction, coefficient 2) x "
             "max/min; optimize, optimize(raise_error), slim_optimize(error_value symbolic/0.0/nan/None), accessors"),
    H("c04_after_history", c04_after_history, quick=dict(max_paths=20000, time_budget=60),
      thorough=dict(max_paths=200000, time_budget=300), witness_every=40,
      bounds="base model of the edit alphabet (5 reactions, R1 with symbolic bounds), one operation of the alphabet (every "
             "argument shape) outside a context, inside an open one, or inside one that is left before optimising; then "
             "optimize() against an oracle LP rebuilt from the Python objects"),
    H("c04_inf", c04_inf, tiers=("quick",), quick=dict(max_paths=8000, time_budget=60),
      bounds="T1; lower bounds finite symbolic or -inf, upper bounds finite symbolic or +inf (R1 lower bound finite)"),
    H("c04_inf_thorough", c04_inf_thorough, tiers=("thorough",), thorough=dict(max_paths=200000, time_budget=400),
      bounds="T1 every bound finite-or-infinite; T2 one reaction (every choice) finite-or-infinite, the others finite symbolic"),
    H("c04_sense_snapshot", c04_sense_snapshot, quick=dict(max_paths=4000, time_budget=40),
      thorough=dict(max_paths=50000, time_budget=200),
      bounds="T2,T7; one symbolic reaction (every choice); objective_sense x direction; one later edit + re-optimisation"),
]
