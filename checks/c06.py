"""C06 - deletion analyses report the optimum of each knocked-out model.

Real code executed: single/double_reaction_deletion, single/double_gene_deletion, _multi_deletion,
_reaction_deletion/_gene_deletion, _get_growth, _element_lists/_entities_ids, Gene.knock_out,
Reaction.functional/knock_out, find_essential_genes/reactions, add_moma(linear) - on the stub, serial.
Oracle: for each unordered combination, the FBA problem in which the reactions chosen by *our*
evaluator (gprspec.truth) are forced to zero; own KKT certificates.
"""
import itertools
from fractions import Fraction
import math

import z3
from cobra.exceptions import OptimizationError
from cobra.flux_analysis import (double_gene_deletion, double_reaction_deletion, find_essential_genes,
                                 find_essential_reactions, pfba, single_gene_deletion, single_reaction_deletion)

from vlib import env, networks
from vlib.gprspec import truth
from vlib.lpspec import fba_lp
from vlib.observe import observe, same
from vlib.runner import H
from vlib.vsym import SymReal, lift, rv

PID = "C06"

RULES = {"EX_A": ("or", ("and", "g1", "g2"), "g4"), "R1": ("and", "g1", "g2"), "R2": ("or", "g1", "g3"), "DM_B": None}
GENES = ["g1", "g2", "g3", "g4"]


def _model(E, w):
    env.for_path(E)
    m = networks.build("T8")
    ids = [r.id for r in m.reactions]
    k = E.choice("symbolic_reactions", len(w), [",".join(x) for x in w])
    networks.symbolic_bounds(E, m, which=list(w[k]))
    m.objective = "DM_B"
    direction = E.pick("direction", ["max", "min"])
    m.objective_direction = direction
    # the state the analysis finds: as built / a gene the user knocked out earlier (its reactions are closed, the flag is
    # False: a later deletion of another gene has to count it as absent) / an uncapped route EX_A -> R2 -> DM_B (knocked-out
    # problems are then unbounded unless R2 is among the deleted: "not-a-number otherwise")
    scenario = E.pick("pre_state", ["as-built", "gene-already-knocked-out", "uncapped-route"])
    PRE_KO.clear()
    if scenario == "gene-already-knocked-out":
        g = E.pick("which_gene", ["g3", "g1"])
        m.genes.get_by_id(g).knock_out()
        PRE_KO.add(g)
    elif scenario == "uncapped-route":
        inf = float("inf")
        for rid, b in (("EX_A", (-inf, None)), ("R2", (None, inf)), ("DM_B", (None, inf))):
            r = m.reactions.get_by_id(rid)
            r.bounds = (b[0] if b[0] is not None else r.lower_bound, b[1] if b[1] is not None else r.upper_bound)
    E.note(symbolic=list(w[k]), direction=direction, pre_state=scenario, pre_knocked=sorted(PRE_KO))
    return m, ids, direction


PRE_KO = set()      # genes the user knocked out before the analysis on the current path


NO_OBJ = [False]


def _oracle(E, m, zeroed, direction, tag):
    lp = fba_lp(m, tag=tag)
    for rid in zeroed:
        lp.lb[rid] = 0
        lp.ub[rid] = 0
    return lp.optimum(E, ({} if NO_OBJ[0] else {"DM_B": 1}), direction, name=tag), lp


def _zeroed_by_genes(absent):
    return [rid for rid, t in RULES.items() if t is not None and not truth(t, set(absent) | PRE_KO)]


def _is_nan(x):
    return isinstance(x, float) and math.isnan(x)


def _rows(df):
    out = {}
    dup = []
    for ids, growth, status in zip(df["ids"], df["growth"], df["status"]):
        key = frozenset(ids)
        if key in out:
            dup.append(sorted(key))
        out[key] = (growth, status)
    return out, dup


def _check_rows(E, m, df, combos, zero_of, direction, label):
    rows, dup = _rows(df)
    E.prove(not dup, "one-row-per-combination", duplicates=dup[:3], what=label)
    E.prove(set(rows) == set(combos), "rows=requested-combinations", what=label,
            missing=[sorted(c) for c in set(combos) - set(rows)][:3], extra=[sorted(c) for c in set(rows) - set(combos)][:3])
    for comb in sorted(combos, key=sorted):
        if comb not in rows:
            continue
        growth, status = rows[comb]
        (st, opt, _, _), _lp = _oracle(E, m, zero_of(comb), direction, "ko_" + "_".join(sorted(comb)))
        if st == "optimal":
            E.prove(status == "optimal", "status-optimal-iff-optimum-exists", comb=sorted(comb), got=status)
            E.prove((not _is_nan(growth)) and E.eq(growth, opt), "growth=optimum-of-knocked-out-model", comb=sorted(comb))
        else:
            E.prove(status != "optimal", "status-optimal-iff-optimum-exists", comb=sorted(comb), got=status, oracle=st)
            E.prove(_is_nan(growth), "growth-nan-when-no-optimum", comb=sorted(comb), oracle=st)


W_QUICK = (("EX_A",), ("R1", "DM_B"))
W_THOROUGH = (("EX_A", "R1"), ("R2", "DM_B"), ("EX_A", "R1", "DM_B"))


def c06_single(E, w=W_QUICK):
    m, ids, direction = _model(E, w)
    entity = E.pick("entity", ["reaction", "gene"])
    shape = E.pick("list", ["None", "objects-partial", "ids-partial", "ids-repeated", "empty"])
    pool = ids if entity == "reaction" else GENES
    dl = m.reactions if entity == "reaction" else m.genes
    if shape == "None":
        arg, want = None, list(pool)
    elif shape == "objects-partial":
        want = [pool[2], pool[0]]
        arg = [dl.get_by_id(x) for x in want]
    elif shape == "ids-partial":
        want = [pool[1], pool[3]]
        arg = list(want)
    elif shape == "empty":
        want, arg = [], []          # nothing requested: no rows
    else:
        want = [pool[1], pool[1], pool[0]]
        arg = list(want)
    E.note(entity=entity, list=shape)
    before = observe(m)
    fn = single_reaction_deletion if entity == "reaction" else single_gene_deletion
    df = fn(m, arg, processes=1)
    same(E, before, observe(m), "model-unchanged", what="single_%s_deletion" % entity)
    combos = {frozenset([x]) for x in want}
    zero_of = (lambda c: list(c)) if entity == "reaction" else _zeroed_by_genes
    _check_rows(E, m, df, combos, zero_of, direction, "single-" + entity)


def c06_double(E, w=W_QUICK):
    m, ids, direction = _model(E, w)
    entity = E.pick("entity", ["reaction", "gene"])
    shape = E.pick("lists", ["None,None", "partial,None", "partial,overlapping", "ids,objects", "shared-item-first"])
    pool = ids if entity == "reaction" else GENES
    dl = m.reactions if entity == "reaction" else m.genes
    if shape == "None,None":
        a1 = a2 = None
        l1 = l2 = list(pool)
    elif shape == "partial,None":
        l1 = [pool[0], pool[2]]
        a1, a2 = list(l1), None
        l2 = l1
    elif shape == "partial,overlapping":
        l1 = [pool[0], pool[1]]
        l2 = [pool[1], pool[0], pool[3]]
        a1, a2 = list(l1), list(l2)
    elif shape == "shared-item-first":
        # an item of both lists comes before an item that is in the first list only
        l1 = [pool[1], pool[0]]
        l2 = [pool[1], pool[3]]
        a1, a2 = list(l1), list(l2)
    else:
        l1 = [pool[3], pool[1]]
        l2 = [pool[2]]
        a1, a2 = list(l1), [dl.get_by_id(x) for x in l2]
    E.note(entity=entity, lists=shape)
    before = observe(m)
    fn = double_reaction_deletion if entity == "reaction" else double_gene_deletion
    df = fn(m, a1, a2, processes=1)
    same(E, before, observe(m), "model-unchanged", what="double_%s_deletion" % entity)
    combos = {frozenset(c) for c in itertools.product(l1, l2)}
    zero_of = (lambda c: list(c)) if entity == "reaction" else _zeroed_by_genes
    _check_rows(E, m, df, combos, zero_of, direction, "double-" + entity)


def c06_essential(E, w=W_QUICK):
    m, ids, direction = _model(E, w)
    if direction == "min":
        return
    entity = E.pick("entity", ["reaction", "gene"])
    thr_kind = E.pick("threshold", ["default", "1/2"])
    if E.flag("model_without_objective"):
        # nothing to optimise: growth is 0 everywhere, the default threshold is 0, essential = infeasible knock-outs only
        from optlang.symbolics import Zero
        m.objective = m.problem.Objective(Zero, sloppy=True)
        NO_OBJ[0] = True
    else:
        NO_OBJ[0] = False
    (st, opt, _, _), _lp = _oracle(E, m, [], direction, "wild")
    if st != "optimal":
        return
    threshold = None if thr_kind == "default" else 0.5
    thr = opt * rv(0.01) if threshold is None else rv(0.5)
    # tolerance discipline (DESIGN 4.0): knocked-out optima within 1e-4 of the threshold are left out of the claim
    before = observe(m)
    got = (find_essential_reactions if entity == "reaction" else find_essential_genes)(m, threshold=threshold, processes=1)
    same(E, before, observe(m), "model-unchanged", what="find_essential_%ss" % entity)
    got_ids = {x.id for x in got}
    pool = ids if entity == "reaction" else GENES
    for x in pool:
        zeroed = [x] if entity == "reaction" else _zeroed_by_genes({x})
        (s2, o2, _, _), _ = _oracle(E, m, zeroed, direction, "ess_" + x)
        if s2 != "optimal":
            E.prove(x in got_ids, "essential=infeasible-or-below-threshold", entity=x, oracle=s2)
        elif E.symbolic:
            below = o2 < thr
            E.prove(z3.BoolVal(x in got_ids) == below, "essential=infeasible-or-below-threshold", entity=x)
        else:
            margin = rv(1e-4)
            E.prove(E.all_of([E.implies(o2 < thr - margin, x in got_ids), E.implies(o2 > thr + margin, x not in got_ids)]),
                    "essential=infeasible-or-below-threshold", entity=x)


def c06_moma(E, w=(("EX_A",), ("DM_B",))):
    """linear MOMA deletions: growth = original objective at a minimal-adjustment solution"""
    tid = E.pick("template", ["T8", "T9", "T11"])
    if tid == "T8":
        m, ids, direction = _model(E, w)
        if direction == "min":
            return
        rules = RULES
    else:
        env.for_path(E)
        PRE_KO.clear()
        m = networks.build(tid)
        ids = [r.id for r in m.reactions]
        networks.symbolic_bounds(E, m, which=[E.pick("symbolic_reaction", ["DRAIN", "EX_A"] if tid == "T9" else ["DRAIN", "SRC"])])
        m.objective = "DM_B"
        direction = "max"
        rules = {"R1": "g1", "DRAIN": "g2"} if tid == "T9" else {"SRC": "g1", "DRAIN": "g2"}
    # the objective whose value is reported as growth need not be one reaction with coefficient 1 (sixth seed round)
    objc = E.pick("objective_coefficients", [{"DM_B": 1}, {"DM_B": 2}, {"DM_B": 1, "R1": 0.5}])
    if objc != {"DM_B": 1}:
        m.objective = {m.reactions.get_by_id(r): c for r, c in objc.items()}
    entity = E.pick("entity", ["reaction", "gene"])
    refkind = E.pick("reference", ["pfba", "optimize", "pfba-other-order"])
    try:
        if refkind == "pfba-other-order":
            ref = pfba(m, reactions=list(reversed(m.reactions)))      # same fluxes, indexed in another order
        else:
            ref = pfba(m) if refkind == "pfba" else m.optimize()
    except OptimizationError:
        return
    if ref.status != "optimal":
        return
    E.note(template=tid, entity=entity, reference=refkind, objective=str(objc))
    if tid == "T8":
        pool = ["R1", "R2"] if entity == "reaction" else ["g3", "g2"]
    elif tid == "T9":
        pool = ["DRAIN", "R1"] if entity == "reaction" else ["g2", "g1"]
    else:
        pool = ["DRAIN", "SRC"] if entity == "reaction" else ["g2", "g1"]

    def zeroed_of(x):
        if entity == "reaction":
            return [x]
        return [rid for rid, t in rules.items() if t is not None and not truth(t, {x} | PRE_KO)]
    before = observe(m)
    start = len(E.solve_log)
    fn = single_reaction_deletion if entity == "reaction" else single_gene_deletion
    df = fn(m, list(pool), method="linear moma", solution=ref, processes=1)
    same(E, before, observe(m), "model-unchanged", what="linear-moma-deletion")
    rows, dup = _rows(df)
    E.prove(not dup and set(rows) == {frozenset([x]) for x in pool}, "rows=requested-combinations", what="moma")
    recs = [r for r in E.solve_log[start:] if "_get_growth" in r["site"]] if E.symbolic else None
    order = [sorted(ids_)[0] for ids_ in df["ids"]]
    for x in pool:
        if frozenset([x]) not in rows:
            continue
        growth, status = rows[frozenset([x])]
        zeroed = zeroed_of(x)
        lp = fba_lp(m, tag="moma_" + x)
        for rid in zeroed:
            lp.lb[rid] = 0
            lp.ub[rid] = 0
        dist = {}
        for r in ids:
            a = "dist_" + r
            lp.add_var(a, 0, None)
            lp.add_row(a + "_p", {a: 1, r: -1}, -ref.fluxes[r], None)
            lp.add_row(a + "_n", {a: 1, r: 1}, ref.fluxes[r], None)
            dist[r] = a
        st, best, _, _ = lp.optimum(E, {a: 1 for a in dist.values()}, "min", name="oracle_moma_" + x)
        if st != "optimal":
            E.prove(status != "optimal", "status-optimal-iff-optimum-exists", comb=[x], got=status)
            continue
        E.prove(status == "optimal", "status-optimal-iff-optimum-exists", comb=[x], got=status)
        # exists a minimal-adjustment point whose original objective equals the reported growth
        w_ = lp.fresh_point(E, "att_" + x)
        tot = rv(0)
        for a in dist.values():
            tot = tot + w_[a]
        objv = rv(0)
        for r_, c_ in objc.items():
            objv = objv + rv(Fraction(c_)) * w_[r_]
        phi = z3.And(lp.feasible(w_), _eqz(E, tot, best), _eqz(E, objv, growth))
        wit = None
        if recs is not None and len(recs) == len(pool):
            rec = recs[order.index(x)]
            wit = {}
            for r in m.reactions:
                wit[w_[r.id]] = rec["x"][r.id] - rec["x"][r.reverse_id]
            for r in ids:
                wit[w_[dist[r]]] = rec["x"]["moma_dist_" + r]
        E.prove_exists(list(w_.values()), phi, "moma-growth=objective-at-a-minimal-adjustment-solution", witness=wit, comb=[x])


def _eqz(E, a, b):
    from vlib.vsym import zbool
    c = zbool(E.eq(a, b))
    return z3.BoolVal(c) if isinstance(c, bool) else c


def c06_single_thorough(E):
    return c06_single(E, w=W_THOROUGH)


def c06_double_thorough(E):
    return c06_double(E, w=W_THOROUGH)


def c06_essential_thorough(E):
    return c06_essential(E, w=W_THOROUGH)


HARNESSES = [
    H("c06_single", c06_single, tiers=("quick",), quick=dict(max_paths=6000, time_budget=60),
      bounds="T8 (4 reactions, rules g1&g2 | g1|g3 | (g1&g2)|g4 | none); symbolic bounds on {EX_A} or {R1,DM_B}; reaction and gene; "
             "list None / objects / ids / with repeats; max and min; fba"),
    H("c06_double", c06_double, tiers=("quick",), quick=dict(max_paths=6000, time_budget=70),
      bounds="as single; list pairs None,None / partial,None / partial,overlapping (repeats between lists) / ids,objects"),
    H("c06_essential", c06_essential, tiers=("quick",), quick=dict(max_paths=4000, time_budget=40),
      bounds="as single; threshold default (1% of optimum) or 1/2"),
    H("c06_moma", c06_moma, quick=dict(max_paths=3000, time_budget=60), thorough=dict(max_paths=100000, time_budget=400),
      bounds="T8 (symbolic bounds on EX_A or DM_B) and T9 (forced drain competing with the objective; symbolic bounds on DRAIN or "
             "EX_A), max; single reaction/gene deletion of 2 entities with method='linear moma' and the wild-type pFBA solution "
             "as reference"),
    H("c06_single_thorough", c06_single_thorough, tiers=("thorough",), thorough=dict(max_paths=200000, time_budget=300),
      bounds="symbolic bounds on {EX_A,R1} / {R2,DM_B} / {EX_A,R1,DM_B}"),
    H("c06_double_thorough", c06_double_thorough, tiers=("thorough",), thorough=dict(max_paths=200000, time_budget=400),
      bounds="symbolic bounds on {EX_A,R1} / {R2,DM_B} / {EX_A,R1,DM_B}"),
    H("c06_essential_thorough", c06_essential_thorough, tiers=("thorough",), thorough=dict(max_paths=100000, time_budget=200),
      bounds="symbolic bounds on {EX_A,R1} / {R2,DM_B} / {EX_A,R1,DM_B}"),
]
