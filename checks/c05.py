"""C05 - flux variability analysis reports the true flux ranges.

Real code executed: flux_variability_analysis, _init_worker, _fva_step, add_pfba,
fix_objective_as_constraint, loopless_fva_iter, _add_cycle_free, set_objective, context undo -
on the LP contract stub (serial path; the pool path is C14).
Oracle: the polyhedron {S v = 0, lb <= v <= ub, c.v >=/<= f*opt [, sum|v| <= k*min sum|v|]} built from
the Python objects; soundness = no oracle point outside the reported range (for all bounds at once),
tightness = the recorded stub primal of the producing solve is an oracle point attaining the extreme.
"""
from fractions import Fraction

import z3
from cobra.exceptions import OptimizationError
from cobra.flux_analysis import flux_variability_analysis

from vlib import env, networks
from vlib.lpspec import add_abs, fba_lp, zabs
from vlib.observe import observe, same
from vlib.runner import H
from vlib.vsym import lift, rv

PID = "C05"


def oracle_set(E, m, obj, direction, fraction, pfba_factor=None):
    """-> (status, opt, P) where P(v) is the z3 predicate of the oracle flux set over a point dict v"""
    lp = fba_lp(m)
    status, opt, pt, _ = lp.optimum(E, obj, direction, name="oracle")
    if status != "optimal":
        return status, None, None
    if fraction != 1:
        # the property's own precondition for fractions below one
        E.assume(opt >= 0 if direction == "max" else opt <= 0)
    frac = rv(Fraction(fraction))
    cap = None
    if pfba_factor is not None:
        lp2 = fba_lp(m, tag="pf")
        lp2.add_row("keep_objective", obj, *((frac * opt, None) if direction == "max" else (None, frac * opt)))
        aux = add_abs(lp2, [r.id for r in m.reactions])
        st2, tot, _, _ = lp2.optimum(E, {a: 1 for a in aux.values()}, "min", name="oracle_pfba")
        if st2 != "optimal":
            raise AssertionError("parsimonious oracle must be solvable when the base problem is")
        cap = rv(Fraction(pfba_factor)) * tot

    def P(v):
        cs = [lp.feasible(v)]
        cv = lp.lin(obj, v)
        cs.append(cv >= frac * opt if direction == "max" else cv <= frac * opt)
        if cap is not None:
            tot = rv(0)
            for r in m.reactions:
                tot = tot + zabs(v[r.id])
            cs.append(tot <= cap)
        return z3.And(*cs)

    return status, opt, (lp, P)


def net_flux_of(rec, m):
    """net flux per reaction in a recorded stub primal"""
    out = {}
    for r in m.reactions:
        out[r.id] = rec["x"][r.id] - rec["x"][r.reverse_id]
    return out


def check_ranges(E, m, res, ids, lp, P, step_recs, label_suffix=""):
    v = lp.fresh_point(E, "any")
    Pv = P(v)
    for i, rid in enumerate(ids):
        lo, hi = res.at[rid, "minimum"], res.at[rid, "maximum"]
        E.prove(E.le(lo, hi), "min<=max" + label_suffix, reaction=rid)
        # sound: every oracle point lies inside the reported range
        if E.symbolic:
            E.prove(z3.Implies(Pv, z3.And(lift(lo) <= v[rid], v[rid] <= lift(hi))), "range-sound" + label_suffix,
                    reaction=rid)
        else:
            tol = rv(E.tol)
            E.prove(z3.Implies(Pv, z3.And(lift(lo) - tol <= v[rid], v[rid] <= lift(hi) + tol)),
                    "range-sound" + label_suffix, reaction=rid)
        # tight: each extreme is attained by an oracle point
        for what, val, k in (("minimum", lo, i), ("maximum", hi, len(ids) + i)):
            w = lp.fresh_point(E, "att_%s_%s" % (what, rid))
            wit = None
            if E.symbolic and step_recs is not None:
                nf = net_flux_of(step_recs[k], m)
                wit = {w[r]: nf[r] for r in w}
            E.prove_exists(list(w.values()), z3.And(P(w), zbool_eq(E, w[rid], val)), "range-tight" + label_suffix,
                           witness=wit, reaction=rid, what=what)


def zbool_eq(E, a, b):
    from vlib.vsym import zbool
    c = zbool(E.eq(a, b))
    return z3.BoolVal(c) if isinstance(c, bool) else c


def _fva_steps(E, start):
    return [r for r in E.solve_log[start:] if "_fva_step" in r["site"] and "loopless_fva_iter" not in r["site"]]


QUICK_T = (("T1", None), ("T2", 3), ("T3", 2))
THOROUGH_T = (("T1", None), ("T2", None), ("T3", None), ("T4", 4), ("T7", None))


def c05_fva(E, templates=QUICK_T, fractions=(1, Fraction(1, 2), 0), pfba=(None,), solved_before=False):
    env.for_path(E)
    tid, w = E.pick("template", templates)
    m = networks.build(tid)
    t = networks.T[tid]
    obj = t["objectives"][E.choice("objective", len(t["objectives"]))]
    if solved_before:
        # the solver holds status 'optimal' and a primal solution of the model as it was before the bounds below
        m.objective = {m.reactions.get_by_id(r): c for r, c in obj.items()}
        m.optimize()
    direction = E.pick("direction", ["max", "min"])
    fraction = E.pick("fraction", fractions)
    factor = E.pick("pfba_factor", pfba) if len(pfba) > 1 else pfba[0]
    ids_all = [r.id for r in m.reactions]
    networks.symbolic_bounds(E, m, which=(ids_all if w is None else ids_all[:w]))
    m.objective = {m.reactions.get_by_id(r): c for r, c in obj.items()}
    m.objective_direction = direction
    rl = E.choice("reaction_list", 4, ["None", "objects", "ids", "ids-repeated"])
    if rl == 0:
        arg, ids = None, ids_all
    elif rl == 1:
        ids = ids_all[:2]
        arg = [m.reactions.get_by_id(i) for i in ids]
    elif rl == 2:
        ids = [ids_all[-1], ids_all[1]]
        arg = list(ids)
    else:
        ids = [ids_all[1], ids_all[-1], ids_all[1]]      # a reaction named twice: every requested row is filled
        arg = list(ids)
    E.note(template=tid, objective=obj, direction=direction, fraction=str(fraction), pfba_factor=str(factor),
           reaction_list=["None", "objects", "ids", "ids-repeated"][rl])
    status, opt, setp = oracle_set(E, m, obj, direction, fraction, factor)
    before = observe(m)
    start = len(E.solve_log)
    try:
        res = flux_variability_analysis(m, reaction_list=arg, fraction_of_optimum=float(fraction)
                                        if fraction in (0, 1) else fraction, pfba_factor=factor, processes=1)
        raised = None
    except OptimizationError as e:
        res, raised = None, e
    same(E, before, observe(m), "model-unchanged", what="fva")
    if status != "optimal":
        E.prove(raised is not None, "raises-when-no-optimum", oracle=status)
        return
    E.prove(raised is None, "no-exception-on-feasible-model", got=repr(raised))
    if res is None:
        return
    E.prove(list(res.index) == ids and list(res.columns) == ["minimum", "maximum"], "index-as-requested")
    lp, P = setp
    recs = _fva_steps(E, start) if E.symbolic else None
    if recs is not None and len(recs) != 2 * len(ids):
        recs = None
    if len(set(ids)) != len(ids):
        # rows of a reaction named more than once all carry its range; the range itself is checked on the first one
        if list(res.index) != ids:
            return
        for i, rid in enumerate(ids):
            j = ids.index(rid)
            if j != i:
                E.prove(E.all_of([E.eq(res["minimum"].iloc[i], res["minimum"].iloc[j]),
                                  E.eq(res["maximum"].iloc[i], res["maximum"].iloc[j])]), "repeated-item-rows-agree", reaction=rid)
        res = res[~res.index.duplicated(keep="first")]
        ids = list(dict.fromkeys(ids))
        recs = None
    check_ranges(E, m, res, ids, lp, P, recs)


def c05_solved_before(E):
    return c05_fva(E, templates=(("T2", 2), ("T3", 2)), fractions=(1, Fraction(1, 2)), pfba=(None, 1), solved_before=True)


def c05_fva_thorough(E):
    return c05_fva(E, templates=THOROUGH_T, fractions=(1, Fraction(9, 10), Fraction(1, 2), 0))


def c05_pfba_factor(E):
    # fraction 0 with bounds that allow the all-zero distribution: the parsimonious optimum is 0 and so is the cap
    return c05_fva(E, templates=(("T2", 2), ("T3", 2)), fractions=(1, Fraction(1, 2), 0), pfba=(1, Fraction(11, 10)))


def c05_pfba_factor_thorough(E):
    return c05_fva(E, templates=(("T2", None), ("T3", 4), ("T7", None)), fractions=(1, Fraction(1, 2), 0),
                   pfba=(1, Fraction(11, 10)))


def elementary_cycles(m):
    """signed elementary internal cycles of the concrete stoichiometry: minimal-support null vectors of the
    internal (non-boundary) columns, both orientations"""
    import itertools
    from fractions import Fraction as F
    import sympy
    internal = [r for r in m.reactions if not r.boundary]
    mets = list(m.metabolites)
    cycles = []
    for k in range(1, len(internal) + 1):      # k = 1: a reaction without metabolites is a cycle by itself
        for sub in itertools.combinations(internal, k):
            if any(set(c) <= set(r.id for r in sub) for c in cycles):
                continue
            M = sympy.Matrix([[sympy.Rational(str(F(r._metabolites.get(mt, 0)))) for r in sub] for mt in mets])
            ns = M.nullspace()
            if len(ns) == 1 and all(x != 0 for x in ns[0]):
                cycles.append({r.id: (1 if ns[0][i] > 0 else -1) for i, r in enumerate(sub)})
    out = []
    for c in cycles:
        out.append(c)
        out.append({r: -s_ for r, s_ in c.items()})
    return out


def cycle_free(cycles, v):
    cs = []
    for c in cycles:
        cs.append(z3.Or(*[(v[r] <= 0) if s_ > 0 else (v[r] >= 0) for r, s_ in c.items()]))
    return z3.And(*cs) if cs else z3.BoolVal(True)


def c05_loopless(E, templates=(("T3", ("R2",)), ("T3", ("R1",)), ("T10", ("R3",)), ("T10", ("EX_A",)))):
    env.for_path(E)
    tid, which = E.pick("template", templates)
    m = networks.build(tid)
    obj = networks.T[tid]["objectives"][0]
    networks.symbolic_bounds(E, m, which=list(which), delta=0.01)
    m.objective = {m.reactions.get_by_id(r): c for r, c in obj.items()}
    lone = E.flag("with_a_reaction_without_metabolites")
    if lone:
        from cobra import Reaction
        m.add_reactions([Reaction("EMPTY", lower_bound=-5, upper_bound=10)])     # a closed internal cycle by itself
    E.note(template=tid, symbolic=list(which), empty_reaction=lone)
    status, opt, setp = oracle_set(E, m, obj, "max", 1)
    if status != "optimal":
        return
    lp, P = setp
    cycles = elementary_cycles(m)
    # the property's domain: models in which a cycle-free optimal distribution exists (forced loops are documented as kept)
    w0 = lp.fresh_point(E, "cf0")
    if not E.exists_fork(list(w0.values()), z3.And(P(w0), cycle_free(cycles, w0)), name="cycle_free_point_exists"):
        return
    ids = [r.id for r in m.reactions if not r.boundary][:2] + (["EMPTY"] if lone else [])
    before = observe(m)
    try:
        plain = flux_variability_analysis(m, reaction_list=ids, processes=1)
        ll = flux_variability_analysis(m, reaction_list=ids, loopless=True, processes=1)
    except (OptimizationError, ValueError) as e:
        E.prove(False, "loopless-fva-runs-on-feasible-model", exc=type(e).__name__, msg=str(e)[:160])
        return
    same(E, before, observe(m), "model-unchanged", what="loopless fva")
    v = lp.fresh_point(E, "anycf")
    Pv = z3.And(P(v), cycle_free(cycles, v))
    # loopless_fva_iter compares fluxes with zero_cutoff (model.tolerance = 1e-7): its results are exact only up to that
    # cutoff, so these obligations carry a slack of 1e-6 also in the exact symbolic run (cutoff-aware, DESIGN 4.0)
    sl = rv(1e-6)
    for rid in ids:
        a, b = lift(ll.at[rid, "minimum"]), lift(ll.at[rid, "maximum"])
        pa, pb = lift(plain.at[rid, "minimum"]), lift(plain.at[rid, "maximum"])
        E.prove(z3.And(pa - sl <= a, a <= b + sl, b <= pb + sl), "loopless-range-inside-plain-range", reaction=rid)
        if E.symbolic:
            # loopless_fva_iter works from whichever optimal solution the solver returns for the cycle-free LP (which has
            # alternative optima); under the LP contract a returned point with the reaction itself below the cutoff makes
            # the heuristic block that reaction (seen in the design of this harness: T3, max R1 reported 0 instead of 10).
            # Soundness and tightness therefore depend on the solver's choice and are evaluated on the GLPK replays only.
            continue
        E.prove(z3.Implies(Pv, z3.And(a - sl <= v[rid], v[rid] <= b + sl)), "loopless-range-sound", reaction=rid)
        for what, val in (("minimum", a), ("maximum", b)):
            w = lp.fresh_point(E, "att_%s_%s" % (what, rid))
            E.prove_exists(list(w.values()), z3.And(P(w), cycle_free(cycles, w), w[rid] - val <= sl, val - w[rid] <= sl),
                           "loopless-range-tight", reaction=rid, what=what)


def c05_unbounded(E):
    """a requested reaction without a finite extreme (a cycle whose reactions have no upper bound) among reactions that have one:
    the call may refuse (OptimizationError) or report an infinity on exactly that side - every other reported number is still
    the true extreme, whatever the position of the unbounded reaction in the list (sixth seed round)"""
    import math
    env.for_path(E)
    m = networks.build("T3")
    networks.symbolic_bounds(E, m, which=["EX_A"])
    for rid in E.pick("cycle_without_upper_bounds", ["R1+R2", "R2+R3"]).split("+"):
        m.reactions.get_by_id(rid).upper_bound = float("inf")
    obj = {"DM_B": 1}
    m.objective = {m.reactions.DM_B: 1}
    fraction = E.pick("fraction", (1, 0))
    ids = list(E.pick("reaction_list", [("R2", "DM_B"), ("DM_B", "R2"), ("R1", "EX_A", "R3"), ("EX_A", "R3", "R2", "DM_B")]))
    E.note(reaction_list=ids, fraction=str(fraction))
    status, opt, setp = oracle_set(E, m, obj, "max", fraction)
    if status != "optimal":
        return
    lp, P = setp
    lp2 = lp.copy("rec")
    lp2.add_row("keep_objective", obj, rv(Fraction(fraction)) * opt, None)
    infinite = {(rid, sgn): lp2._unbounded({rid: 1}, sgn) for rid in ids for sgn in (-1, 1)}
    before = observe(m)
    try:
        res = flux_variability_analysis(m, reaction_list=ids, fraction_of_optimum=float(fraction), processes=1)
        raised = None
    except OptimizationError as e:
        res, raised = None, e
    same(E, before, observe(m), "model-unchanged", what="fva-unbounded")
    if raised is not None:
        E.prove(any(infinite.values()), "refuses-only-when-a-requested-extreme-is-infinite", got=repr(raised))
        return
    v = lp.fresh_point(E, "any")
    Pv = P(v)
    for rid in ids:
        for sgn, col in ((-1, "minimum"), (1, "maximum")):
            val = res.at[rid, col]
            isinf = isinstance(val, float) and math.isinf(val)
            if infinite[(rid, sgn)]:
                E.prove(isinf and (val > 0) == (sgn > 0), "infinite-extreme-reported-as-infinite", reaction=rid, what=col, got=str(val))
                continue
            E.prove(not isinf, "finite-extreme-reported-finite", reaction=rid, what=col, got=str(val))
            if isinf:
                continue
            E.prove(z3.Implies(Pv, lift(val) <= v[rid] if sgn < 0 else v[rid] <= lift(val)) if E.symbolic else
                    z3.Implies(Pv, lift(val) - rv(E.tol) <= v[rid] if sgn < 0 else v[rid] <= lift(val) + rv(E.tol)),
                    "range-sound[unbounded-neighbour]", reaction=rid, what=col)
            w = lp.fresh_point(E, "att_%s_%s" % (col, rid))
            E.prove_exists(list(w.values()), z3.And(P(w), zbool_eq(E, w[rid], val)), "range-tight[unbounded-neighbour]",
                           reaction=rid, what=col)


HARNESSES = [
    H("c05_unbounded", c05_unbounded, quick=dict(max_paths=2000, time_budget=40), thorough=dict(max_paths=20000, time_budget=120),
      bounds="T3 with the upper bounds of one 2-cycle (R1/R2 or R2/R3) infinite, EX_A's bounds symbolic in [-10,10]; fraction in {1,0}; "
             "4 reaction lists with the unbounded reaction first, last or in the middle; the call may raise or report infinities on the "
             "sides the oracle's recession cone makes infinite, every other number is proved sound and tight"),
    H("c05_fva", c05_fva, tiers=("quick",), quick=dict(max_paths=8000, time_budget=80),
      bounds="T1 all flux bounds symbolic, T2 first 3, T3 first 2 reactions symbolic (others at template values); bounds in "
             "[-10,10], lb<=ub; objective x max/min; fraction in {1,1/2,0} (optimum sign assumed for fraction<1); "
             "reaction_list None/objects/ids; processes=1"),
    H("c05_fva_thorough", c05_fva_thorough, tiers=("thorough",), thorough=dict(max_paths=400000, time_budget=600),
      bounds="T1,T2,T3,T7 all bounds symbolic, T4 first 4; fractions {1,9/10,1/2,0}"),
    H("c05_pfba_factor", c05_pfba_factor, tiers=("quick",), quick=dict(max_paths=3000, time_budget=45),
      bounds="T2,T3; first 2 reactions symbolic; pfba_factor in {1, 11/10}; fraction in {1,1/2}"),
    H("c05_solved_before", c05_solved_before, quick=dict(max_paths=4000, time_budget=45), thorough=dict(max_paths=4000, time_budget=90),
      bounds="as c05_pfba_factor (pfba_factor None or 1), but the model was optimised before its bounds were set: the solver "
             "still reports 'optimal' and the old primal values when FVA starts"),
    H("c05_loopless", c05_loopless, quick=dict(max_paths=3000, time_budget=70, witnesses=40),
      thorough=dict(max_paths=100000, time_budget=500, witnesses=200), witness_every=4,
      bounds="T3 (2-cycles R1/R2, R3/R2) and T10 (cycle R1 with -R3, uptake below cycle capacity), one symbolic reaction (0 or |b|>=1e-2); loopless=True for 2 internal "
             "reactions; oracle = optimal steady-state distributions in which no elementary internal cycle runs in its orientation; "
             "instances without a cycle-free optimal distribution (forced loops, documented as kept) excluded"),
    H("c05_pfba_factor_thorough", c05_pfba_factor_thorough, tiers=("thorough",),
      thorough=dict(max_paths=100000, time_budget=400),
      bounds="T2,T7 all symbolic, T3 first 4; pfba_factor in {1, 11/10}; fraction in {1,1/2,0}"),
]
