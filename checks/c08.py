"""C08 - a gene rule is a Boolean function and its text form is faithful.

Real code executed: GPR.from_string (real ast.parse), GPRCleaner, GPRWalker, update_genes, eval/_eval_gpr,
to_string/_ast2str, __str__, copy, __eq__, as_symbolic/from_symbolic (sympy), _GeneRemover/remove_genes,
Reaction.__getstate__/__setstate__ (pickle).
Symbolic: the set of absent genes (one z3 Bool per gene, forked lazily by the real short-circuit
evaluation); tree shape, identifiers and spelling by exhaustive choice.  Strings are concrete on each path
(Python's parser is C): z3 decides the path tree and the Boolean equivalences over all knock-out sets.
Oracle: gprspec.tt_formula (independent evaluator), self-tested against brute-force truth tables.
"""
import pickle

import z3
from cobra import Metabolite, Model, Reaction
from cobra.core.gene import GPR
from cobra.manipulation import remove_genes

from vlib import env, gprspec
from vlib.gprspec import SHAPES, SPELLINGS, SymSet, instantiate, leaves, substitute_false, to_text, tt_formula
from vlib.runner import H

PID = "C08"

PLAIN = ["gA", "gB", "gC", "gD"]
AWKWARD = [
    "b1234", "1abc", "123", "2", "0", "9.1", "3-4",
    "if", "class", "True", "None", "False", "lambda", "not", "in", "is", "for", "def", "else", "import",
    "g.1", "a-b", "a:b", "a/b", "a'b", 'a"b', "a=b", "x.y-z:1/2", "a.if", "if.a", "1.if", "if-else", "a=1",
    "android", "oregon", "band", "for_x", "iffy", "notch", "ANDROID", "ORB", "And", "Or", "nor", "xand",
    "and1", "or_2", "_", "__", "_1", "a__b", "G_0.1-2", "AND1", "OR_x", "x.AND", "1and", "9or",
]

CONTEXTS = [
    lambda X, g, h: X,
    lambda X, g, h: ("and", X, g),
    lambda X, g, h: ("or", g, X),
    lambda X, g, h: ("or", ("and", X, g), h),
    lambda X, g, h: ("and", ("or", g, X), ("or", X, h)),
]


def _kset(E, genes):
    """one symbolic absent-set per path: repeated evaluations over the same genes re-use its decisions"""
    K = E.notes.get("_K")
    if K is None or set(genes) - set(K.ids):
        K = SymSet(E, sorted(set(genes) | set(K.ids if K is not None else [])), name="absent%d" % len(E._names))
        E.notes["_K"] = K
    return K


def _eval_obligations(E, gpr, tree, label, genes=None):
    genes = sorted(leaves(tree)) if genes is None else genes
    K = _kset(E, genes)
    got = gpr.eval(K)
    want = K.formula(tree)
    E.prove(E.iff(got, want) if not isinstance(want, bool) else (bool(got) == want), "eval=truth-table[%s]" % label,
            rule=str(tree))


def _roundtrips(E, gpr, tree, which):
    """text / copy / pickle / symbolic round trips: same genes, equal, same truth table"""
    for name in which:
        if name == "text":
            g2 = GPR.from_string(gpr.to_string())
        elif name == "str":
            g2 = GPR.from_string(str(gpr))
        elif name == "copy":
            g2 = gpr.copy()
        elif name == "pickle":
            r = Reaction("R")
            r.gpr = gpr.copy()
            r2 = pickle.loads(pickle.dumps(r))
            g2 = r2.gpr
            E.prove(sorted(g.id for g in r2.genes) == sorted(leaves(tree)), "roundtrip-genes[pickle-reaction]")
        else:
            g2 = GPR.from_symbolic(gpr.as_symbolic())
        E.prove(set(g2.genes) == leaves(tree), "roundtrip-genes[%s]" % name, rule=str(tree), got=sorted(g2.genes))
        E.prove(bool(g2 == gpr) and bool(gpr == g2), "roundtrip-equal[%s]" % name, rule=str(tree),
                text=gpr.to_string())
        _eval_obligations(E, g2, tree, name)


def c08_shapes(E, shapes=SHAPES, spellings=SPELLINGS, trips=("text", "copy", "pickle", "symbolic")):
    """(ii) every tree shape over plain identifiers x all spellings x symbolic knock-outs"""
    env.for_path(E)
    tree = instantiate(shapes[E.choice("shape", len(shapes))], PLAIN)
    sp = E.pick("spelling", spellings)
    text = to_text(tree, sp)
    E.note(rule=str(tree), text=text)
    gpr = GPR.from_string(text)
    E.prove(set(gpr.genes) == leaves(tree), "genes=leaves", text=text, got=sorted(gpr.genes))
    _eval_obligations(E, gpr, tree, "parsed")
    trip = E.pick("roundtrip", trips)
    _roundtrips(E, gpr, tree, [trip])


def c08_ids(E, ids=AWKWARD, spellings=("lower", "upper", "bitwise")):
    """(i) every awkward identifier in 5 fixed rule contexts x spellings x symbolic knock-outs"""
    env.for_path(E)
    X = ids[E.choice("id", len(ids), ids)]
    ctx = E.choice("context", len(CONTEXTS))
    tree = CONTEXTS[ctx](X, "gA", "gB")
    sp = E.pick("spelling", list(spellings))
    text = to_text(tree, sp)
    E.note(id=X, text=text)
    gpr = GPR.from_string(text)
    E.prove(set(gpr.genes) == leaves(tree), "genes=leaves", text=text, got=sorted(gpr.genes))
    _eval_obligations(E, gpr, tree, "parsed")
    _roundtrips(E, gpr, tree, ["text", "pickle", "symbolic"])


def c08_two_ids(E, ids=None):
    """(iii) two awkward identifiers at once in the depth-2 shapes"""
    env.for_path(E)
    ids = ids or ["1abc", "if", "a.b", "a-b", "android", "True", "a'b", "9.1", "a=b", "x/y"]
    a = ids[E.choice("id_a", len(ids), ids)]
    b = ids[E.choice("id_b", len(ids), ids)]
    if a == b:
        return
    sh = E.pick("shape", [("and", 0, 1), ("or", 0, 1), ("or", ("and", 0, 2), 1), ("and", ("or", 0, 1), 2)])
    tree = instantiate(sh, [a, b, "gC"])
    sp = E.pick("spelling", ["lower", "bitwise"])
    text = to_text(tree, sp)
    E.note(text=text)
    gpr = GPR.from_string(text)
    E.prove(set(gpr.genes) == leaves(tree), "genes=leaves", text=text, got=sorted(gpr.genes))
    _eval_obligations(E, gpr, tree, "parsed")
    _roundtrips(E, gpr, tree, ["text"])


def c08_equality(E):
    """rules that compare equal are logically equivalent (and equivalent generated pairs compare equal)"""
    env.for_path(E)
    i = E.choice("shape_a", len(SHAPES))
    j = E.choice("shape_b", len(SHAPES))
    ta, tb = instantiate(SHAPES[i], PLAIN), instantiate(SHAPES[j], PLAIN)
    ga, gb = GPR.from_string(to_text(ta)), GPR.from_string(to_text(tb))
    eq = bool(ga == gb)
    genes = sorted(leaves(ta) | leaves(tb))
    b = {g: z3.Bool("k_" + g) for g in genes}
    fa, fb = tt_formula(ta, b), tt_formula(tb, b)
    E.note(a=str(ta), b=str(tb), eq=eq)
    if eq:
        E.prove(fa == fb, "equal-rules-are-equivalent", a=str(ta), b=str(tb))
    else:
        # not required by the property in general, but identical trees must compare equal
        E.prove(i != j, "identical-rules-compare-equal", a=str(ta))


def c08_remove_genes(E, shapes=SHAPES, generated=False):
    """removing genes leaves every reaction that can still be catalysed with rule == old[R:=false]"""
    env.for_path(E)
    if generated:
        t0 = instantiate(gprspec.gen_tree(E, 2, 4), PLAIN)
    else:
        t0 = instantiate(shapes[E.choice("shape", len(shapes))], PLAIN)
    t1 = ("or", "gA", ("and", "gB", "gC"))
    sp = E.pick("rule_spelling", ["lower", "bitwise", "upper"])      # how the rules were written when they were assigned
    m = Model("rg")
    A, B = Metabolite("A", compartment="c"), Metabolite("B", compartment="c")
    rs = []
    for i, t in enumerate((t0, t1, None)):
        r = Reaction("R%d" % i)
        r.add_metabolites({A: -1, B: 1})
        if t is not None:
            r.gene_reaction_rule = to_text(t, sp)
        rs.append(r)
    m.add_reactions(rs)
    genes = sorted(g.id for g in m.genes)
    removed = [g for g in genes if E.flag("remove_" + g)]
    if not removed:
        return
    rr = E.flag("remove_reactions")
    arg = E.pick("arg", ["ids", "objects"])
    E.note(rules=[str(t0), str(t1)], removed=removed, remove_reactions=rr, spelling=sp)
    if E.flag("compared_before"):
        # a rule that was converted / compared earlier in its life (the usual case in a session)
        for r in m.reactions:
            r.gpr.as_symbolic()
            r.gpr == GPR.from_string(r.gene_reaction_rule)
    remove_genes(m, removed if arg == "ids" else [m.genes.get_by_id(g) for g in removed], remove_reactions=rr)
    for g in removed:
        E.prove(g not in m.genes, "removed-gene-left-model", gene=g)
    for i, t in enumerate((t0, t1)):
        rid = "R%d" % i
        sub = substitute_false(t, set(removed))
        if sub is None:
            if rr:
                E.prove(rid not in m.reactions, "uncatalysable-reaction-removed", reaction=rid, rule=str(t))
            continue
        E.prove(rid in m.reactions, "catalysable-reaction-kept", reaction=rid, rule=str(t))
        if rid not in m.reactions:
            continue
        r = m.reactions.get_by_id(rid)
        rest = sorted(leaves(t) - set(removed))
        _eval_obligations(E, r.gpr, sub, "after-remove_genes", genes=rest)
        reparsed = GPR.from_string(r.gene_reaction_rule)
        E.prove(set(r.gpr.genes) == set(reparsed.genes) and set(g.id for g in r.genes) == set(reparsed.genes),
                "rule-genes=genes-in-rule", reaction=rid, rule=r.gene_reaction_rule, gpr_genes=sorted(r.gpr.genes),
                reaction_genes=sorted(g.id for g in r.genes))
        E.prove(set(reparsed.genes) <= set(rest), "no-removed-gene-in-rule", reaction=rid, rule=r.gene_reaction_rule)
        # the simplified rule is a rule like any other: text and sympy round trips stay faithful
        E.prove(bool(r.gpr == reparsed) and bool(reparsed == r.gpr), "roundtrip-equal[text-after-remove_genes]",
                reaction=rid, rule=r.gene_reaction_rule)
        g3 = GPR.from_symbolic(r.gpr.as_symbolic())
        E.prove(set(g3.genes) == set(reparsed.genes), "roundtrip-genes[symbolic-after-remove_genes]", reaction=rid,
                got=sorted(g3.genes), rule=r.gene_reaction_rule)
        _eval_obligations(E, g3, sub, "symbolic-after-remove_genes", genes=rest)
    E.prove("R2" in m.reactions and m.reactions.get_by_id("R2").gene_reaction_rule == "", "rule-less-reaction-untouched")


def c08_remove_genes_trees(E):
    return c08_remove_genes(E, generated=True)


def c08_thorough_trees(E):
    """generated trees up to depth 3 (fan-out <= 3, <= 4 genes)"""
    env.for_path(E)
    sh = gprspec.gen_tree(E, 2, 4)
    tree = instantiate(sh, PLAIN)
    sp = E.pick("spelling", ["lower", "bitwise"])
    text = to_text(tree, sp)
    E.note(text=text)
    gpr = GPR.from_string(text)
    E.prove(set(gpr.genes) == leaves(tree), "genes=leaves", text=text)
    _eval_obligations(E, gpr, tree, "parsed")
    _roundtrips(E, gpr, tree, ["text"])


HARNESSES = [
    H("c08_shapes", c08_shapes, quick=dict(max_paths=30000, time_budget=40), thorough=dict(max_paths=300000, time_budget=200),
      bounds="16 and/or shapes (depth<=3, <=4 genes, shared/duplicate/absorbing) x 4 spellings (and/or, AND/OR, &/|, "
             "redundant parentheses+blanks) x one round trip (text, copy, pickle via Reaction, sympy) x all knock-out sets"),
    H("c08_ids", c08_ids, quick=dict(max_paths=40000, time_budget=50), thorough=dict(max_paths=400000, time_budget=240),
      bounds="%d awkward identifiers (leading digits, pure digits, keywords incl. True/False/None, dots, dashes, colons, "
             "slashes, quotes, equals, keyword/and/or substrings, AND-like prefixes) x 5 rule contexts x 3 spellings x "
             "text/pickle/sympy round trips x all knock-out sets" % len(AWKWARD)),
    H("c08_two_ids", c08_two_ids, quick=dict(max_paths=20000, time_budget=30), thorough=dict(max_paths=200000, time_budget=120),
      bounds="pairs from 10 awkward identifiers in 4 depth<=2 shapes x 2 spellings"),
    H("c08_equality", c08_equality, quick=dict(max_paths=2000, time_budget=30), thorough=dict(max_paths=2000, time_budget=60),
      bounds="all 16x16 pairs of shapes over the same genes: == implies equivalence (z3 over all knock-out sets)"),
    H("c08_remove_genes", c08_remove_genes, quick=dict(max_paths=30000, time_budget=40),
      thorough=dict(max_paths=300000, time_budget=200),
      bounds="model with rule shape (16) + fixed rule + rule-less reaction; every non-empty subset of its genes removed, "
             "remove_reactions on/off, ids/objects"),
    H("c08_remove_genes_trees", c08_remove_genes_trees, tiers=("thorough",), thorough=dict(max_paths=3000000, time_budget=400),
      witness_every=500,
      bounds="as c08_remove_genes with the first rule any generated tree of depth<=3 (leaf = next fresh gene or gene 0; and/or "
             "with 2-3 children; <=4 genes); sampled when the budget ends first"),
    H("c08_thorough_trees", c08_thorough_trees, tiers=("thorough",), thorough=dict(max_paths=1000000, time_budget=300),
      bounds="all generated trees depth<=3 (leaf = next fresh gene or gene 0; and/or with 2-3 children) x 2 spellings"),
]
