"""C19 - blocked-reaction and consistency analyses agree with the true flux ranges.

Real code executed: find_blocked_reactions, normalize_cutoff, the pre-filter by one solution, FVA at
fraction 0, pandas masks; fastcc, _find_sparse_mode, _flip_coefficients, Model.copy,
remove_reactions(remove_orphans=True) - on the stub.
Oracle: the steady-state polytope of the Python objects (exchanges widened when requested).
Tolerance discipline (DESIGN 4.0): every symbolic finite bound is 0 or at least 1e-2 in magnitude.
"""
import z3
from cobra.flux_analysis import fastcc, find_blocked_reactions

from vlib import env, networks
from vlib.lpspec import fba_lp
from vlib.observe import observe, same
from vlib.runner import H
from vlib.vsym import lift, rv

PID = "C19"
CUTOFF = 1e-7


def _model(E, templates):
    env.for_path(E)
    tid, which = E.pick("template", templates)
    m = networks.build(tid)
    m.objective = {m.reactions.get_by_id(r): c for r, c in networks.T[tid]["objectives"][0].items()}
    solved = E.flag("solved_before_the_bounds_were_set")
    if solved:
        m.optimize()        # the solver keeps status 'optimal' and these primal values after the bounds change below
    networks.symbolic_bounds(E, m, which=list(which), delta=0.01, sign="spans0")
    E.note(template=tid, symbolic=list(which), solved_before=solved)
    return m, tid


QUICK_T = (("T6", ("EX_A", "R1", "DEAD", "DM_B")), ("T6", ("R2", "DM_B", "X1")), ("T3", ("EX_A", "R2", "DM_B")),
           ("T2", ("EX_A", "R1", "R2", "DM_B")))
THOROUGH_T = (("T6", ("EX_A", "R1", "R2", "DM_B")), ("T6", ("DEAD", "X1", "X2", "DM_B")), ("T3", ("EX_A", "R1", "R2", "R3", "DM_B")),
              ("T2", ("EX_A", "R1", "R2", "DM_B")), ("T5", ("EX_A_e", "EX_B_e", "TA", "SK_A")))


def c19_blocked(E, templates=QUICK_T):
    m, tid = _model(E, templates)
    open_ex = E.flag("open_exchanges")
    rl = E.pick("reaction_list", ["None", "objects", "ids", "empty"])
    ids_all = [r.id for r in m.reactions]
    if rl == "None":
        arg, ids = None, ids_all
    elif rl == "empty":
        arg, ids = [], []           # nothing asked for: nothing reported
    elif rl == "objects":
        ids = [ids_all[-1], ids_all[1], ids_all[2]]
        arg = [m.reactions.get_by_id(i) for i in ids]
    else:
        ids = [ids_all[0], ids_all[-2]]
        arg = list(ids)
    E.note(open_exchanges=open_ex, reaction_list=rl)
    lp = fba_lp(m)
    if open_ex:
        for r in m.exchanges:
            lo, hi = r.lower_bound, r.upper_bound
            lp.lb[r.id] = _minb(E, lo, -1000)
            lp.ub[r.id] = _maxb(E, hi, 1000)
    before = observe(m)
    blocked = find_blocked_reactions(m, reaction_list=arg, open_exchanges=open_ex, processes=1)
    same(E, before, observe(m), "model-unchanged", what="find_blocked_reactions")
    E.prove(all(isinstance(b, str) for b in blocked) and set(blocked) <= set(ids) and len(set(blocked)) == len(blocked),
            "result-is-a-list-of-requested-ids", got=[str(b) for b in blocked])
    v = lp.fresh_point(E, "any")
    Pv = lp.feasible(v)
    for rid in ids:
        if rid in blocked:
            # reported blocked => no steady-state distribution carries flux through it (cutoff-aware)
            E.prove(z3.Implies(Pv, z3.And(v[rid] < rv(CUTOFF), v[rid] > rv(-CUTOFF))), "reported-blocked=>carries-no-flux",
                    reaction=rid)
        else:
            # not reported => some steady-state distribution carries flux
            w = lp.fresh_point(E, "wit_" + rid)
            E.prove_exists(list(w.values()), z3.And(lp.feasible(w), w[rid] != 0), "truly-blocked=>reported", reaction=rid)


def _minb(E, a, c):
    if isinstance(a, float) or isinstance(a, int):
        return min(a, c)
    return _If(a <= c, a, c)


def _maxb(E, a, c):
    if isinstance(a, float) or isinstance(a, int):
        return max(a, c)
    return _If(a >= c, a, c)


def _If(cond, a, b):
    from vlib.vsym import SymReal, zbool
    c = zbool(cond)
    if isinstance(c, bool):
        return a if c else b
    return SymReal(z3.If(c, lift(a), lift(b)))


def c19_fastcc(E, templates=(("T2", ("R1",)), ("T2", ("EX_A",)), ("T3", ("R2",)))):
    """solver-independent part: every kept reaction can carry flux, is unchanged, input untouched.
    Completeness (every non-blocked reaction kept) depends on which optimal solution the solver returns;
    it is evaluated on the concrete GLPK replays only (known finding, DESIGN section 6)."""
    m, tid = _model(E, templates)
    direction = E.pick("objective_direction", ["max", "min"])
    m.objective_direction = direction
    E.note(direction=direction)
    lp = fba_lp(m)
    before = observe(m)
    res = fastcc(m)
    same(E, before, observe(m), "model-unchanged", what="fastcc")
    kept = [r.id for r in res.reactions]
    obs = observe(res, lp=False)
    for rid in kept:
        E.prove(rid in before["rxn"], "kept-reactions-come-from-input", reaction=rid)
        a, b = before["rxn"][rid], obs["rxn"][rid]
        E.prove(E.all_of([a["mets"].keys() == b["mets"].keys(), a["rule"] == b["rule"], E.eq(a["lb"], b["lb"]),
                          E.eq(a["ub"], b["ub"])] + [E.eq(a["mets"][k], b["mets"].get(k, 0)) for k in a["mets"]]),
                "kept-reaction-unchanged", reaction=rid)
        w = lp.fresh_point(E, "wit_" + rid)
        E.prove_exists(list(w.values()), z3.And(lp.feasible(w), w[rid] != 0), "kept-reaction-can-carry-flux", reaction=rid)
    # cross references of the returned model
    for mid, mo in obs["met"].items():
        E.prove(bool(mo["reactions"]) and all(r in kept for r in mo["reactions"]), "no-orphans-or-dangling-references", met=mid)
    if not E.symbolic:
        for r in m.reactions:
            if r.id in kept:
                continue
            v = lp.fresh_point(E, "any_" + r.id)
            E.prove(z3.Implies(lp.feasible(v), z3.And(v[r.id] < rv(1e-3), v[r.id] > rv(-1e-3))), "non-blocked-reaction-kept",
                    reaction=r.id, what="fastcc-completeness", reversible=bool(r.reversibility))


HARNESSES = [
    H("c19_blocked", c19_blocked, tiers=("quick",), quick=dict(max_paths=8000, time_budget=80),
      bounds="T6 (dead end, blocked branch, isolated cycle), T3, T2 with 3 symbolic reactions each (others at template bounds); "
             "bounds span zero, finite bounds 0 or |b|>=1e-2; reaction_list None/objects/ids/empty; open_exchanges on/off"),
    H("c19_blocked_thorough", lambda E: c19_blocked(E, THOROUGH_T), tiers=("thorough",),
      thorough=dict(max_paths=300000, time_budget=600), bounds="T6,T3,T2,T5 with 4-5 symbolic reactions"),
    H("c19_fastcc", c19_fastcc, tiers=("quick",), quick=dict(max_paths=3000, time_budget=60), witness_every=3,
      bounds="T2 (R1 or EX_A symbolic) and T3 (R2 symbolic); soundness/unchanged/cross-references symbolically; completeness on GLPK "
             "replays only (depends on the optimal solution returned)"),
    H("c19_fastcc_thorough", lambda E: c19_fastcc(E, (("T6", ("EX_A", "DEAD")), ("T2", ("EX_A", "R1", "DM_B")), ("T3", ("EX_A", "R2")))),
      tiers=("thorough",), thorough=dict(max_paths=100000, time_budget=500), witness_every=5,
      bounds="T6, T3 with 2, T2 with 3 symbolic reactions"),
]
