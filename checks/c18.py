"""C18 - medium get/set are inverse; a minimal medium is sufficient and minimal.

Real code executed: Model.medium getter/setter, Model.exchanges, find_boundary_types, is_boundary_type,
find_external_compartment, bounds setters, minimal_medium(minimize_components=False), add_linear_obj,
_as_medium - on the stub.  Template T5: exchanges written in both directions (A_e -->, --> B_e), a sink.
Oracle: our own classification of exchanges (boundary reaction on an 'e' metabolite, not a sink/demand)
and LPs built from the Python objects.
"""
import z3
from cobra.medium import minimal_medium

from vlib import env, networks
from vlib.lpspec import exists_point, fba_lp
from vlib.observe import observe, same
from vlib.runner import H
from vlib.vsym import SymReal, lift, rv, zbool

PID = "C18"
EXCH = {"EX_A_e": "reactant", "EX_B_e": "product"}     # A_e -->   |   --> B_e
DROP = 1e-7     # the solver tolerance configured by vlib/env.py: minimal_medium ignores import fluxes below it


def _model(E, sym=("EX_A_e", "EX_B_e", "SK_A"), delta=None):
    env.for_path(E)
    m = networks.build("T5")
    ann = E.pick("annotation", ["heuristic-only", "sbo-annotated"])
    if ann == "sbo-annotated":
        m.reactions.EX_A_e.annotation["sbo"] = "SBO:0000627"
        m.reactions.EX_B_e.annotation["sbo"] = "SBO:0000627"
        m.reactions.SK_A.annotation["sbo"] = "SBO:0000632"
        m.reactions.DM_C.annotation["sbo"] = "SBO:0000628"
    networks.symbolic_bounds(E, m, which=list(sym), delta=delta)
    m.objective = "DM_C"
    E.note(annotation=ann)
    return m


def _import_bound(r, kind):
    return -r.lower_bound if kind == "reactant" else r.upper_bound


def _export_bound(r, kind):
    return r.upper_bound if kind == "reactant" else -r.lower_bound


def c18_medium(E):
    m = _model(E)
    E.prove(sorted(r.id for r in m.exchanges) == sorted(EXCH), "exchanges=boundary-reactions-on-external-metabolites",
            got=sorted(r.id for r in m.exchanges))
    shape = E.pick("medium", ["{}", "{EX_A_e}", "{EX_B_e}", "{EX_A_e,EX_B_e}"])
    d = {}
    for rid in EXCH:
        if rid in shape:
            d[rid] = E.real("medium_" + rid, 0, 20)
    before = {r.id: (r.lower_bound, r.upper_bound) for r in m.reactions}
    E.note(medium=shape)
    # documented precondition: the new import bound must not cross the other bound (bounds setter raises ValueError)
    ok = []
    for rid, kind in EXCH.items():
        lb, ub = before[rid]
        if rid in d:
            ok.append(E.le(-d[rid], ub) if kind == "reactant" else E.le(lb, d[rid]))
        else:
            # closing import of an exchange whose import is forced is impossible
            ok.append(E.le(0, ub) if kind == "reactant" else E.le(lb, 0))
    precond = E.all_of(ok)
    pre = zbool(precond)
    if not isinstance(pre, bool):
        pre = bool(__import__("vlib.vsym", fromlist=["SymBool"]).SymBool(pre))
    # the argument as a dict or as a pandas Series (what minimal_medium returns: `model.medium = minimal_medium(model)`)
    form = E.pick("medium_as", ["dict", "Series"])
    import pandas as pd
    arg = d if form == "dict" else pd.Series(d, dtype=object if E.symbolic else float)
    E.note(medium_as=form)
    try:
        m.medium = arg
        raised = None
    except ValueError as e:
        raised = e
    if not pre:
        return      # forced-import situations: the setter may raise or leave them (not asserted)
    E.prove(raised is None, "setter-does-not-raise-on-valid-medium", got=repr(raised))
    if raised is not None:
        return
    for rid, kind in EXCH.items():
        r = m.reactions.get_by_id(rid)
        lb0, ub0 = before[rid]
        if rid in d:
            E.prove(E.eq(_import_bound(r, kind), d[rid]), "listed-exchange-import=value", reaction=rid)
        else:
            old_imp = -lb0 if kind == "reactant" else ub0
            want = _If(old_imp > 0, 0, old_imp)
            E.prove(E.eq(_import_bound(r, kind), want), "unlisted-exchange-import-closed", reaction=rid)
        E.prove(E.eq(_export_bound(r, kind), ub0 if kind == "reactant" else -lb0), "export-bound-untouched", reaction=rid)
    for r in m.reactions:
        if r.id not in EXCH:
            E.prove(E.all_of([E.eq(r.lower_bound, before[r.id][0]), E.eq(r.upper_bound, before[r.id][1])]),
                    "non-exchange-untouched", reaction=r.id)
    got = m.medium
    want_keys = sorted(k for k in d if bool(d[k] > 0))
    E.prove(sorted(got) == want_keys, "medium-getter=entries-with-positive-import", got=sorted(got), want=want_keys)
    for k in want_keys:
        if k in got:
            E.prove(E.eq(got[k], d[k]), "medium-getter=entries-with-positive-import:value", key=k)
    # set(get(model)) is the identity
    snap = observe(m)
    m.medium = m.medium
    same(E, snap, observe(m), "set(get)=identity")


def _If(cond, a, b):
    c = zbool(cond)
    if isinstance(c, bool):
        return a if c else b
    return SymReal(z3.If(c, lift(a), lift(b)))


def c18_minimal_medium(E, sym=("EX_A_e", "EX_B_e")):
    m = _model(E, sym=sym, delta=0.01)
    g = E.real("min_objective_value", 0.01, 12)
    oe = E.pick("open_exchanges", [False, True, 5])
    exports = E.flag("exports")
    objc = {"DM_C": 1}
    if E.flag("model_without_objective"):
        # nothing to reach a positive objective value with: no medium suffices
        from optlang.symbolics import Zero
        m.objective = m.problem.Objective(Zero, sloppy=True)
        objc = {}
    E.note(open_exchanges=str(oe), exports=exports, objective=sorted(objc))
    lp = fba_lp(m)
    if oe is not False:
        n = 1000 if oe is True else oe
        for rid in EXCH:
            lp.lb[rid], lp.ub[rid] = -n, n
    lp.add_row("growth", objc, g, None)
    imp = {}
    for rid, kind in EXCH.items():
        a = "imp_" + rid
        lp.add_var(a, 0, None)
        lp.add_row(a + "_def", {a: 1, rid: (1 if kind == "reactant" else -1)}, 0, None)   # imp >= import flux
        imp[rid] = a
    status, best, _, _ = lp.optimum(E, {a: 1 for a in imp.values()}, "min", name="oracle_medium")
    before = observe(m)
    start = len(E.solve_log)
    med = minimal_medium(m, min_objective_value=g, exports=exports, open_exchanges=oe)
    same(E, before, observe(m), "model-unchanged", what="minimal_medium")
    if status != "optimal":
        E.prove(med is None, "None-iff-no-medium-suffices", oracle=status)
        return
    E.prove(med is not None, "None-iff-no-medium-suffices", oracle=status)
    if med is None:
        return
    tot = rv(0)
    for k in med.index:
        if k in EXCH:
            v = med[k]
            tot = tot + z3.If(lift(v) > 0, lift(v), 0)
    E.prove(set(med.index) <= set(EXCH), "medium-lists-exchanges-only", got=list(med.index))
    # documented: import fluxes below the solver tolerance are ignored (_as_medium) - the listed total may fall short
    # of the LP minimum by at most that much per exchange
    if E.symbolic:
        E.prove(z3.And(lift(tot) <= lift(best), lift(tot) >= lift(best) - rv(len(EXCH) * DROP)), "total-import-minimal")
    else:
        E.prove(E.eq(tot, best), "total-import-minimal")
    if not exports:
        E.prove(E.all_of([lift(med[k]) > 0 for k in med.index]), "imports-positive")
    # sufficiency: with the returned imports as the medium the requested objective value is attainable
    lp2 = fba_lp(m, tag="suff")
    for rid, kind in EXCH.items():
        n = None
        if oe is not False:
            n = 1000 if oe is True else oe
        val = med[rid] if rid in med.index else 0
        val = _If(lift(val) > 0, val, 0) if not isinstance(val, (int, float)) else max(val, 0)
        val = val + DROP        # an import the result ignored as below tolerance may still be needed
        if kind == "reactant":
            lp2.lb[rid] = -val if not isinstance(val, (int, float)) else -val
            if n is not None:
                lp2.ub[rid] = n
        else:
            lp2.ub[rid] = val
            if n is not None:
                lp2.lb[rid] = -n
    w = lp2.fresh_point(E, "suff")
    wit = None
    if E.symbolic:
        recs = [r for r in E.solve_log[start:] if r.get("status") == "optimal"]
        if recs:
            rec = recs[-1]
            wit = {w[r.id]: rec["x"][r.id] - rec["x"][r.reverse_id] for r in m.reactions}
    # on GLPK replays "sufficient" is meant up to the solver's feasibility tolerance (an instance infeasible by 1e-7
    # in exact arithmetic is feasible for GLPK)
    E.prove_exists(list(w.values()), z3.And(lp2.feasible(w, slack=(0 if E.symbolic else 1e-6)),
                                            w["DM_C"] >= lift(g) - (rv(E.tol) if not E.symbolic else 0)),
                   "medium-is-sufficient", witness=wit)


def c18_minimal_medium_mip(E, sym=("EX_A_e", "EX_B_e")):
    """minimize_components=True: the real add_mip_obj / minimal_medium on the MILP contract of the stub (binary
    indicators enumerated inside the formula).  Oracle: no sufficient flux distribution imports through fewer
    exchanges than the returned medium lists; the returned medium is sufficient; None iff no medium suffices."""
    m = _model(E, sym=sym, delta=0.01)
    g = E.real("min_objective_value", 0.01, 12)
    oe = E.pick("open_exchanges", [False, True, 5])
    import cobra
    # configured default bounds wider or narrower than the bounds of the model
    cobra.Configuration().bounds = E.pick("config_bounds", [(-1000.0, 1000.0), (-2.0, 2.0)])
    E.note(open_exchanges=str(oe))
    lp = fba_lp(m)
    if oe is not False:
        n = 1000 if oe is True else oe
        for rid in EXCH:
            lp.lb[rid], lp.ub[rid] = -n, n
    lp.add_row("growth", {"DM_C": 1}, g, None)
    suff = exists_point(E, lp, "oracle_sufficient_medium_exists", tag="oracle_any")
    ncmp = E.pick("minimize_components", [True, 3])       # 3: up to three alternative media (more than exist on T5)
    E.note(minimize_components=str(ncmp))
    before = observe(m)
    start = len(E.solve_log)
    med = minimal_medium(m, min_objective_value=g, minimize_components=ncmp, open_exchanges=oe)
    same(E, before, observe(m), "model-unchanged", what="minimal_medium(minimize_components)")
    if not suff:
        E.prove(med is None, "None-iff-no-medium-suffices", oracle="infeasible")
        return
    E.prove(med is not None, "None-iff-no-medium-suffices", oracle="feasible")
    if med is None:
        return
    import pandas as pd
    media = [med] if isinstance(med, pd.Series) else [med[c] for c in med.columns]
    E.prove(1 <= len(media) <= (1 if ncmp is True else ncmp), "number-of-alternative-media", got=len(media))
    seen = []
    for j, one in enumerate(media):
        comp = sorted(k for k in one.index if k in EXCH and bool(one[k] > 0))
        E.prove(set(one.index) <= set(EXCH), "medium-lists-exchanges-only", got=list(one.index))
        if isinstance(med, pd.Series):
            E.prove(E.all_of([lift(one[k]) > 0 for k in one.index]), "imports-positive")
        E.prove(comp not in seen, "alternative-media-differ", got=comp)
        seen.append(comp)
        ncomp = len(comp)
        # minimal number of components: no sufficient distribution imports through fewer exchanges
        w = lp.fresh_point(E, "fewer%d" % j)
        cnt = rv(0)
        for rid, kind in EXCH.items():
            imp = -w[rid] if kind == "reactant" else w[rid]
            cnt = cnt + z3.If(imp > 0, rv(1), rv(0))
        E.prove(z3.Not(z3.And(lp.feasible(w), cnt < rv(ncomp))), "number-of-components-minimal", components=ncomp, medium=j)
        # sufficiency with the returned imports as the medium
        lp2 = fba_lp(m, tag="suffm%d" % j)
        for rid, kind in EXCH.items():
            n = None
            if oe is not False:
                n = 1000 if oe is True else oe
            val = one[rid] if rid in one.index else 0
            val = val + DROP
            if kind == "reactant":
                lp2.lb[rid] = -val
                if n is not None:
                    lp2.ub[rid] = n
            else:
                lp2.ub[rid] = val
                if n is not None:
                    lp2.lb[rid] = -n
        w2 = lp2.fresh_point(E, "suffm%d" % j)
        E.prove_exists(list(w2.values()), z3.And(lp2.feasible(w2, slack=(0 if E.symbolic else 1e-6)),
                                                 w2["DM_C"] >= lift(g) - (rv(E.tol) if not E.symbolic else 0)),
                       "medium-is-sufficient", medium=j)


def c18_minimal_medium_wide(E):
    return c18_minimal_medium(E, sym=("EX_A_e", "EX_B_e", "SK_A", "DM_C"))


HARNESSES = [
    H("c18_medium", c18_medium, quick=dict(max_paths=20000, time_budget=60), thorough=dict(max_paths=200000, time_budget=300),
      bounds="T5; all bounds of both exchanges and the sink symbolic in [-10,10]; medium = every sub-dictionary of the exchanges "
             "with symbolic values in [0,20]; SBO-annotated and heuristic-only classification"),
    H("c18_minimal_medium", c18_minimal_medium, quick=dict(max_paths=8000, time_budget=70),
      thorough=dict(max_paths=200000, time_budget=400),
      bounds="T5; bounds of both exchanges symbolic (0 or |b|>=1e-2); min_objective_value symbolic in [0.01,12]; open_exchanges "
             "False/True/5; exports on/off; minimize_components=False only"),
    H("c18_minimal_medium_mip", c18_minimal_medium_mip, quick=dict(max_paths=8000, time_budget=70),
      thorough=dict(max_paths=200000, time_budget=400),
      bounds="T5; minimize_components=True on the MILP contract (2 binary indicators, 4 assignments enumerated in the formula); "
             "bounds of both exchanges symbolic (0 or |b|>=1e-2); min_objective_value symbolic in [0.01,12]; open_exchanges False/True/5"),
    H("c18_minimal_medium_wide", c18_minimal_medium_wide, tiers=("thorough",), thorough=dict(max_paths=200000, time_budget=500),
      bounds="as c18_minimal_medium with the bounds of both exchanges, the sink and the demand symbolic"),
]
