"""C17 - loopless_solution removes cycles without changing what matters; add_loopless on the MILP contract.

Real code executed: loopless_solution, _add_cycle_free, Model.optimize, get_solution, bounds setters, contexts -
on the stub.  Symbolic: bounds (reversibility patterns arise from their signs) and, in one variant, the
starting flux vector itself (assumed feasible and optimal for the same model, as documented).
"""
import z3
from cobra.exceptions import OptimizationError
from cobra.flux_analysis.loopless import loopless_solution

from vlib import env, networks
from vlib.lpspec import exists_point, fba_lp, zabs
from vlib.observe import observe, same
from vlib.runner import H
from vlib.vsym import lift, rv

PID = "C17"


CYCLE_OBJECTIVE = {"T3": {"R1": 1}, "T4": {"R2": 1}, "T6": {"R1": 1}}


def c17_loopless_solution(E, templates=(("T3", ("R1", "R2", "R3")), ("T3", ("EX_A", "R3", "DM_B")), ("T4", ("R3", "R1", "R2"))),
                          given=("default",)):
    env.for_path(E)
    tid, which = E.pick("template", templates)
    m = networks.build(tid)
    networks.symbolic_bounds(E, m, which=list(which), delta=0.01)
    obj = networks.T[tid]["objectives"][0]
    if E.pick("objective_on", ["boundary-reaction", "cycle-reaction"]) == "cycle-reaction":
        obj = CYCLE_OBJECTIVE[tid]          # a cycle that touches the objective
    m.objective = {m.reactions.get_by_id(r): c for r, c in obj.items()}
    start_kind = E.pick("start", list(given))
    E.note(template=tid, symbolic=list(which), start=start_kind, objective=sorted(obj))
    ids = [r.id for r in m.reactions]
    lp = fba_lp(m)
    status, opt, _, _ = lp.optimum(E, obj, "max", name="oracle")
    if status != "optimal":
        return      # the property is about feasible models
    before = observe(m)
    if start_kind == "default":
        try:
            sol0 = m.optimize()
        except OptimizationError:
            return
        start = {i: sol0.fluxes[i] for i in ids}
        arg = None
        # loopless_solution re-optimises: its own starting point is whatever the solver returns then; the
        # obligations below are stated against the start it actually used (recorded solve), see `used`
    else:
        start = {i: E.real("v0_" + i, -10, 10) for i in ids}
        pt = {i: lift(start[i]) for i in ids}
        E.assume(lp.feasible(pt))
        E.assume(lp.lin(obj, pt) == opt)
        arg = dict(start)
        if E.pick("given_order", ["model-order", "reversed"]) == "reversed":
            arg = dict(reversed(list(start.items())))       # a mapping has no order the callee may rely on
        if E.flag("another_problem_was_solved_last"):
            # the solver is left 'optimal' on a different problem (other objective, tighter bound), then restored
            with m:
                m.objective = m.reactions[0]
                m.optimize()
            before = observe(m)
    n0 = len(E.solve_log)
    try:
        sol = loopless_solution(m, fluxes=arg)
        raised = None
    except OptimizationError as e:
        sol, raised = None, e
    same(E, before, observe(m), "model-unchanged", what="loopless_solution")
    E.prove(raised is None and sol is not None and sol.status == "optimal", "optimal-on-feasible-start", got=repr(raised))
    if sol is None or sol.status != "optimal":
        return
    if arg is None:
        if E.symbolic:
            rec = E.solve_log[n0]
            start = {r.id: z3.simplify(rec["x"][r.id] - rec["x"][r.reverse_id]) for r in m.reactions}
        else:
            start = None     # the internal starting point is not observable on a concrete replay
    v1 = {i: sol.fluxes[i] for i in ids}
    # steady state, bounds
    for met in m.metabolites:
        tot = rv(0)
        for r in met.reactions:
            tot = tot + lift(r._metabolites[met]) * lift(v1[r.id])
        E.prove(E.eq(tot, 0), "steady-state", met=met.id)
    for r in m.reactions:
        E.prove(E.all_of([E.le(r.lower_bound, v1[r.id]), E.le(v1[r.id], r.upper_bound)]), "in-bounds", reaction=r.id)
    cv = rv(0)
    for r, c in obj.items():
        cv = cv + lift(c) * lift(v1[r])
    E.prove(E.eq(sol.objective_value, cv), "objective_value=c.v")
    E.prove(E.eq(cv, opt), "same-objective-value")
    if start is None:
        return
    boundary = [r.id for r in m.reactions if r.boundary]
    for i in boundary:
        E.prove(E.eq(v1[i], start[i]), "same-boundary-fluxes", reaction=i)
    for i in ids:
        s, v = lift(start[i]), lift(v1[i])
        tol = rv(E.tol) if not E.symbolic else 0
        E.prove(z3.And(z3.Implies(s >= 0, z3.And(v >= -tol, v <= s + tol)), z3.Implies(s < 0, z3.And(v <= tol, v >= s - tol))),
                "no-sign-flip-no-growth", reaction=i)
    # no internal cycle can be removed any further: no steady-state w with the same boundary fluxes and objective,
    # the same signs and |w| <= |v'| everywhere has a smaller total flux
    w = lp.fresh_point(E, "smaller")
    cons = [lp.feasible(w), lp.lin(obj, w) == lp.lin(obj, {i: lift(v1[i]) for i in ids})]
    for i in boundary:
        cons.append(w[i] == lift(v1[i]))
    for i in ids:
        v = lift(v1[i])
        cons.append(z3.And(z3.Implies(v >= 0, z3.And(w[i] >= 0, w[i] <= v)), z3.Implies(v <= 0, z3.And(w[i] <= 0, w[i] >= v))))
    tot_w = sum((zabs(w[i]) for i in ids), rv(0))
    tot_v = sum((zabs(lift(v1[i])) for i in ids), rv(0))
    E.prove(z3.Implies(z3.And(*cons), tot_w >= tot_v - (rv(10 * E.tol) if not E.symbolic else 0)), "no-removable-cycle-left")


def c17_add_loopless(E, templates=(("T3", ("R1", "R2")), ("T3", ("EX_A", "R3")), ("T10", ("R3", "EX_A")), ("T12", ("R2", "R3")))):
    """add_loopless on the MILP contract of the stub (one binary indicator per internal reaction, enumerated inside the
    formula; the null-space rows are the float SVD of the concrete stoichiometry).  Oracle: steady-state, in-bounds
    distributions in which no elementary internal cycle runs in its orientation (checks/c05.elementary_cycles)."""
    from cobra.flux_analysis.loopless import add_loopless
    from checks.c05 import cycle_free, elementary_cycles
    env.for_path(E)
    tid, which = E.pick("template", templates)
    m = networks.build(tid)
    # the bounds are set before add_loopless, or afterwards (within the largest bound the model had at that time; the
    # symbolic reactions are closed or at the template's bounds meanwhile)
    when = E.pick("bounds_set", ["before-add_loopless", "after-add_loopless(closed-meanwhile)", "after-add_loopless"])
    if when == "before-add_loopless":
        networks.symbolic_bounds(E, m, which=list(which), delta=0.01)
    elif when == "after-add_loopless(closed-meanwhile)":
        for rid in which:
            m.reactions.get_by_id(rid).knock_out()
    obj = networks.T[tid]["objectives"][0]
    if E.pick("objective_on", ["boundary-reaction", "cycle-reaction"]) == "cycle-reaction":
        obj = {"R1": 1}
    m.objective = {m.reactions.get_by_id(r): c for r, c in obj.items()}
    direction = E.pick("direction", ["max", "min"])
    m.objective_direction = direction
    E.note(template=tid, symbolic=list(which), objective=sorted(obj), direction=direction, bounds_set=when)
    if when != "before-add_loopless":
        add_loopless(m)
        networks.symbolic_bounds(E, m, which=list(which), delta=0.01)
    ids = [r.id for r in m.reactions]
    cycles = elementary_cycles(m)
    lp = fba_lp(m)
    def cf_relaxed(pt, slack):
        return z3.And(*[z3.Or(*[(pt[r] <= rv(slack)) if s_ > 0 else (pt[r] >= -rv(slack)) for r, s_ in c.items()])
                        for c in cycles]) if cycles else z3.BoolVal(True)

    exists = exists_point(E, lp, "cycle_free_point_exists", extra=cf_relaxed, tag="cf_any")
    content = {r.id: (dict((mt.id, c) for mt, c in r.metabolites.items()), r.lower_bound, r.upper_bound) for r in m.reactions}
    if when == "before-add_loopless":
        add_loopless(m)
    for r in m.reactions:
        now = (dict((mt.id, c) for mt, c in r.metabolites.items()), r.lower_bound, r.upper_bound)
        E.prove(now[0] == content[r.id][0] and E.all_of([E.eq(now[1], content[r.id][1]), E.eq(now[2], content[r.id][2])]),
                "add_loopless-leaves-reactions-unchanged", reaction=r.id)
    try:
        sol = m.optimize()
        raised = None
    except OptimizationError as e:
        sol, raised = None, e
    if not exists:
        E.prove(raised is not None or sol.status != "optimal", "not-optimal-without-a-cycle-free-distribution")
        return
    E.prove(raised is None and sol is not None and sol.status == "optimal", "optimal-when-a-cycle-free-distribution-exists",
            got=repr(raised) if raised else getattr(sol, "status", None))
    if sol is None or sol.status != "optimal":
        return
    v1 = {i: lift(sol.fluxes[i]) for i in ids}
    tol = rv(0) if E.symbolic else rv(E.tol)
    for met in m.metabolites:
        tot = rv(0)
        for r in met.reactions:
            tot = tot + lift(r._metabolites[met]) * v1[r.id]
        E.prove(E.eq(tot, 0), "steady-state", met=met.id)
    for r in m.reactions:
        E.prove(E.all_of([E.le(r.lower_bound, sol.fluxes[r.id]), E.le(sol.fluxes[r.id], r.upper_bound)]), "in-bounds", reaction=r.id)
    # every optimal solution reported is cycle-free (GLPK replays: a flux below the tolerance counts as zero)
    cf = []
    for c in cycles:
        cf.append(z3.Or(*[(v1[r] <= tol) if s_ > 0 else (v1[r] >= -tol) for r, s_ in c.items()]))
    E.prove(z3.And(*cf) if cf else True, "reported-solution-is-cycle-free")
    cv = lp.lin(obj, v1)
    E.prove(E.eq(sol.objective_value, cv), "objective_value=c.v")
    w = lp.fresh_point(E, "better")
    better = (lp.lin(obj, w) > cv + 10 * tol) if direction == "max" else (lp.lin(obj, w) < cv - 10 * tol)
    E.prove(z3.Not(z3.And(lp.feasible(w), cycle_free(cycles, w), better)), "optimum=best-cycle-free-objective")


def c17_given(E):
    return c17_loopless_solution(E, templates=(("T3", ("R2", "R3")), ("T3", ("R1", "EX_A"))), given=("given-optimal-vector",))


def c17_thorough(E):
    return c17_loopless_solution(E, templates=(("T3", ("R1", "R2", "R3", "EX_A")), ("T3", ("EX_A", "R2", "DM_B", "R1")),
                                               ("T4", ("R1", "R2", "R3", "R4")), ("T6", ("R1", "R2", "X1"))), given=("default",))


HARNESSES = [
    H("c17_loopless_solution", c17_loopless_solution, tiers=("quick",), quick=dict(max_paths=6000, time_budget=70),
      bounds="T3 (2-cycles R1/R2, R3/R2, R1/-R3) and T4 (3-cycle) with 3 symbolic reactions (finite bounds 0 or |b|>=1e-2, any "
             "sign pattern); start = the optimum the solver returns"),
    H("c17_given", c17_given, quick=dict(max_paths=6000, time_budget=60), thorough=dict(max_paths=100000, time_budget=300),
      bounds="T3 with 2 symbolic reactions; the starting flux vector itself symbolic (5 reals), assumed steady-state, in "
             "bounds and optimal as documented"),
    H("c17_add_loopless", c17_add_loopless, quick=dict(max_paths=6000, time_budget=70), thorough=dict(max_paths=100000, time_budget=500),
      bounds="add_loopless then optimize on the MILP contract: T3 / T10 (3 resp. 2 internal reactions = binary indicators, all "
             "assignments enumerated in the formula), 2 symbolic reactions; objective on a boundary or a cycle reaction; max/min"),
    H("c17_thorough", c17_thorough, tiers=("thorough",), thorough=dict(max_paths=300000, time_budget=600),
      bounds="T3, T4 with 4, T6 with 3 symbolic reactions"),
]
