"""C11 - JSON, YAML, dict and pickle round trips return the same model.

Real code executed: model_to_dict / model_from_dict and every _*_to_dict / _*_from_dict, _fix_type,
_update_optional, to_json/from_json, to_yaml/from_yaml, save_*/load_* with StringIO handles (text layer
replaced by a structural token stub, DESIGN 2.3), pickle and deepcopy through Model/Reaction/Species/
DictList __getstate__/__setstate__/__reduce__ - on the stub, with symbolic stoichiometry, bounds
(infinities by choice), objective coefficient, direction, and configuration bounds by choice.
Obligations: loading does not raise; the full observation (content + LP) is proved equal; a second round
trip is the identity.  On witness replays the real json / ruamel.yaml text layers are used.
"""
import copy
import io
import pickle

import cobra
from cobra.io import (from_json, from_yaml, load_json_model, load_yaml_model, model_from_dict, model_to_dict,
                      save_json_model, save_yaml_model, to_json, to_yaml)

from vlib import env
from vlib.observe import observe, same
from vlib.ops import base_model
from vlib.runner import H

PID = "C11"
FORMATS = ["dict", "json-string", "json-file", "yaml-string", "yaml-file", "pickle", "deepcopy"]


def roundtrip(fmt, m, sort):
    if fmt == "dict":
        return model_from_dict(model_to_dict(m, sort=sort))
    if fmt == "json-string":
        return from_json(to_json(m, sort=sort))
    if fmt == "json-file":
        f = io.StringIO()
        save_json_model(m, f, sort=sort)
        f.seek(0)
        return load_json_model(f)
    if fmt == "yaml-string":
        return from_yaml(to_yaml(m, sort=sort))
    if fmt == "yaml-file":
        f = io.StringIO()
        save_yaml_model(m, f, sort=sort)
        f.seek(0)
        return load_yaml_model(f)
    if fmt == "pickle":
        return pickle.loads(pickle.dumps(m))
    return copy.deepcopy(m)


def save(fmt, m, sort):
    """-> the saved document (dict / text / bytes / file content)"""
    if fmt == "dict":
        return model_to_dict(m, sort=sort)
    if fmt == "json-string":
        return to_json(m, sort=sort)
    if fmt == "yaml-string":
        return to_yaml(m, sort=sort)
    if fmt in ("json-file", "yaml-file"):
        f = io.StringIO()
        (save_json_model if fmt == "json-file" else save_yaml_model)(m, f, sort=sort)
        return f.getvalue()
    if fmt == "pickle":
        return pickle.dumps(m)
    return m


def load(fmt, doc):
    if fmt == "dict":
        return model_from_dict(doc)
    if fmt == "json-string":
        return from_json(doc)
    if fmt == "yaml-string":
        return from_yaml(doc)
    if fmt == "json-file":
        return load_json_model(io.StringIO(doc))
    if fmt == "yaml-file":
        return load_yaml_model(io.StringIO(doc))
    if fmt == "pickle":
        return pickle.loads(doc)
    return copy.deepcopy(doc)


def _touch_containers(model):
    """edit in place every free-form container of a loaded model (what a user does with it next)"""
    for obj in list(model.reactions) + list(model.metabolites) + list(model.genes) + [model]:
        obj.notes["touched"] = "yes"
        obj.annotation["touched"] = ["yes"]


def c11_roundtrip(E, formats=FORMATS):
    env.for_path(E)
    cfgb = E.pick("config_bounds", [(-1000.0, 1000.0), (-10.0, 10.0)])
    cfg = cobra.Configuration()
    old = cfg.bounds
    cfg.bounds = cfgb
    try:
        m = base_model(E)
        r1 = m.reactions.R1
        kind = E.pick("bounds_kind", ["finite", "ub=+inf", "lb=-inf", "both-inf"])
        if kind == "ub=+inf":
            r1.bounds = (r1.lower_bound, float("inf"))
        elif kind == "lb=-inf":
            r1.bounds = (float("-inf"), r1.upper_bound)
        elif kind == "both-inf":
            r1.bounds = (float("-inf"), float("inf"))
        oc = E.real("objective_coefficient_R1", -5, 5)
        m.objective = {m.reactions.DM_B: 1, r1: oc}
        direction = E.pick("direction", ["max", "min"])
        m.objective_direction = direction
        m.reactions.R2.subsystem = "sub"
        m.metabolites.B.charge = E.pick("charge_B", [None, 0, -2])
        m.metabolites.B.formula = E.pick("formula_B", [None, "", "H2O"])
        m.notes = {"k": "v"}
        # values of every JSON kind inside the free-form containers, None included, at top level and nested
        m.reactions.R2.notes = {"confidence": None, "references": ["pmid:1", None], "nested": {"a": None, "b": [1, 2.5, True]}}
        m.metabolites.B.annotation = {"kegg": ["C2", "C3"], "pairs": [["is", "x"], ["isVersionOf", "y"]]}
        m.genes.g1.name = "gene one"
        m.genes.g1.annotation = {"ncbi": ["1"]}
        fmt = E.pick("format", list(formats))
        sort = E.flag("sort")
        E.note(format=fmt, sort=sort, direction=direction, config_bounds=str(cfgb), bounds_kind=kind)
        skip = ("groups", "group", "index_ok") if fmt not in ("pickle", "deepcopy") else ()
        a = observe(m)
        try:
            m2 = roundtrip(fmt, m, sort)
        except Exception as e:
            E.prove(False, "loading-never-fails-for-a-saved-model", exc=type(e).__name__, msg=str(e)[:200], what=fmt)
            return
        E.prove(True, "loading-never-fails-for-a-saved-model")
        b = observe(m2)
        # direction separately (known finding for the dict-based formats)
        E.prove(a["objective"].get("direction") == b["objective"].get("direction") and
                a["lp"]["objective"]["direction"] == b["lp"]["objective"]["direction"],
                "objective-direction-preserved", what=fmt, saved=direction, loaded=b["objective"].get("direction"))
        a["objective"].pop("direction", None)
        b["objective"].pop("direction", None)
        a["lp"]["objective"].pop("direction", None)
        b["lp"]["objective"].pop("direction", None)
        same(E, a, b, "roundtrip=same-model", ignore_order=sort, skip=skip, what=fmt)
        # one saved document loaded twice, the first loaded model edited in between: the document is not consumed and the
        # loaded models share nothing with each other or with the loader
        if fmt != "deepcopy":
            try:
                doc = save(fmt, m, sort)
                keep = copy.deepcopy(doc) if fmt == "dict" else doc
                first = load(fmt, doc)
                if fmt != "dict":
                    # (a dict document is a live structure that model_to_dict / model_from_dict share containers with - not
                    # demanded otherwise by the property; a text or pickle document cannot change, so whatever differs on the
                    # second load is state kept by the loader)
                    _touch_containers(first)
                again = load(fmt, doc)
            except Exception as e:
                E.prove(False, "document-loads-again", exc=type(e).__name__, msg=str(e)[:200], what=fmt)
                return
            if fmt == "dict" and E.symbolic is False:
                E.prove(doc == keep, "loading-leaves-the-document-alone", what=fmt)
            elif fmt == "dict":
                E.prove(sorted(doc) == sorted(keep) and [sorted(r) for r in doc["reactions"]] == [sorted(r) for r in keep["reactions"]]
                        and [sorted(x) for x in doc["metabolites"]] == [sorted(x) for x in keep["metabolites"]],
                        "loading-leaves-the-document-alone", what=fmt)
            c = observe(again)
            c["objective"].pop("direction", None)
            c["lp"]["objective"].pop("direction", None)
            same(E, a, c, "second-load-of-the-same-document=same-model", ignore_order=sort, skip=skip, what=fmt)
        try:
            m3 = roundtrip(fmt, m2, sort)
        except Exception as e:
            E.prove(False, "second-roundtrip-is-identity", exc=type(e).__name__, what=fmt)
            return
        same(E, observe(m2), observe(m3), "second-roundtrip-is-identity", ignore_order=sort, skip=skip, what=fmt)
    finally:
        cfg.bounds = old


def c11_after_history(E, k=1):
    """a model that went through a history of public operations is saved and loaded: same model again (histories
    that already broke C01/C02 on the original are not continued)"""
    from vlib.ops import OPS, State, invariants, lp_equiv
    from vlib.vsym import Probe
    env.for_path(E)
    S = State()
    m = base_model(E, sym_coef=False)
    # user constraints (cons_vars, fix_objective) are not part of the dict / JSON / YAML formats
    names = [n for n in OPS if n not in ("copy", "merge", "detached_edit", "cons_vars", "fix_objective")]
    for i in range(k):
        try:
            OPS[E.pick("pre_op%d" % i, names)][0](E, m, S)
        except Exception:
            return
    pr = Probe(E)
    try:
        invariants(pr, m, S, "pre")
        lp_equiv(pr, m, S, "pre")
    except Exception:
        return
    if pr.failed or getattr(S, "asym_ok", None):
        return      # objectives outside c*(forward-reverse) are not part of the dict format
    fmt = E.pick("format", ["dict", "json-string", "yaml-string", "pickle"])
    sort = E.flag("sort")
    E.note(format=fmt, sort=sort, ops=[l[0] + ("!" + l[2] if l[2] else "") for l in S.log])
    skip = ("groups", "group", "index_ok") if fmt != "pickle" else ()
    a = observe(m)
    try:
        m2 = roundtrip(fmt, m, sort)
    except Exception as e:
        E.prove(False, "loading-never-fails-for-a-saved-model", exc=type(e).__name__, msg=str(e)[:200], what=fmt)
        return
    b = observe(m2)
    for o in (a, b):
        o["objective"].pop("direction", None)          # separate obligation / known finding in c11_roundtrip
        o["lp"]["objective"].pop("direction", None)
        o["contexts"] = 0
        if fmt != "pickle":
            for g in o.get("gene", {}).values():
                if isinstance(g, dict):
                    g.pop("functional", None)     # the knocked-out flag is not among the attributes C11 lists (nor in the schema)
    for o, mod in ((a, m), (b, m2)):
        for d in o.get("met", {}).values():
            if isinstance(d, dict) and isinstance(d.get("reactions"), list):
                d["reactions"] = [r for r in d["reactions"] if r in mod.reactions]     # detached reactions the user holds
    same(E, a, b, "roundtrip=same-model", ignore_order=sort, skip=skip, what=fmt)


def c11_after_history2(E):
    return c11_after_history(E, k=2)


HARNESSES = [
    H("c11_roundtrip", c11_roundtrip, quick=dict(max_paths=40000, time_budget=80), thorough=dict(max_paths=400000, time_budget=500),
      witness_every=40,
      bounds="base model; R1 with symbolic coefficients [1/4,4], bounds in [-2000,2000] or infinite by choice, symbolic objective "
             "coefficient in [-5,5]; direction max/min; Configuration().bounds (-1000,1000)/(-10,10); charge/formula tables; sort "
             "on/off; formats dict, JSON and YAML (string and file-handle variants), pickle, deepcopy"),
    H("c11_after_history", c11_after_history, tiers=("thorough",), thorough=dict(max_paths=300000, time_budget=250), witness_every=60,
      bounds="base model after one operation of the edit alphabet (every argument shape); dict / JSON / YAML / pickle; sort on/off"),
    H("c11_after_history2", c11_after_history2, tiers=("thorough",), thorough=dict(max_paths=3000000, time_budget=400),
      witness_every=400, bounds="base model after two operations of the edit alphabet (sampled)"),
]
