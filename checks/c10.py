"""C10 - SBML export/import.

Document layer (DESIGN 10.5): c10_document (round trip through the real writer and reader) and c10_foreign (third-party
document shapes) run on a documented stand-in of the libsbml object model on symbolic paths and on the real libsbml on replays.
Identifier escaping kernel:

Functions: _f_gene/_f_gene_rev, _f_specie/_f_specie_rev, _f_reaction/_f_reaction_rev, _f_group/_f_group_rev,
_escape_non_alphanum, _number_to_chr, _clip (cobra/io/sbml.py) - the real code.
Engine 1: CrossHair 0.0.110 on a symbolic str (len <= 5), one process per condition, verdicts reported as they are
('Confirmed over all paths' / counterexample / 'Not confirmed' = no counterexample within the budget).
Engine 2: vsym exhaustive case split over every string of length <= 4 (thorough 5) on an alphabet with one
representative per behavioural class of the two regexes (read from the module at run time).
Obligations: f(f_rev(s)) == s; f_rev(s) is a valid SBML SId; f never raises on f_rev(s); f_rev injective.
"""
import json
import os
import re
import subprocess
import sys
import time

from vlib import runner
from vlib.runner import H

PID = "C10"
ROOT = os.path.dirname(os.path.dirname(os.path.abspath(__file__)))
SID = re.compile(r"^[A-Za-z_][A-Za-z0-9_]*$")
ALPHABET = ["a", "R", "0", "7", "_", ".", "-", "{", "é", "€", " "]


def _pairs():
    import cobra.io.sbml as sb
    return [("reaction", sb._f_reaction, sb._f_reaction_rev), ("specie", sb._f_specie, sb._f_specie_rev),
            ("gene", sb._f_gene, sb._f_gene_rev), ("group", sb._f_group, sb._f_group_rev)]


def _cls(s):
    """classes of the known ambiguity: a literal or created '__<digits>__' needs an underscore next to digits"""
    return "underscore+digit" if ("_" in s and any(ch.isdigit() for ch in s)) else "other"


def c10_enumerate(E, maxlen=4):
    n = 1 + E.choice("len", maxlen)
    s = "".join(ALPHABET[E.choice("ch%d" % i, len(ALPHABET), ALPHABET)] for i in range(n))
    E.note(id=s, cls=_cls(s))
    for kind, f, frev in _pairs():
        try:
            enc = frev(s)
        except Exception as e:
            E.prove(False, "escape-never-raises", kind=kind, exc=type(e).__name__)
            continue
        E.prove(bool(SID.match(enc)), "escaped-id-is-a-valid-SId", kind=kind, enc=enc)
        try:
            dec = f(enc)
        except Exception as e:
            E.prove(False, "unescape-never-raises", kind=kind, exc=type(e).__name__)
            continue
        E.prove(dec == s, "roundtrip-id", kind=kind, enc=enc, dec=dec, cls=_cls(s))


def c10_injective(E, maxlen=2):
    def word(tag):
        n = 1 + E.choice(tag + ".len", maxlen)
        return "".join(ALPHABET[E.choice("%s.ch%d" % (tag, i), len(ALPHABET), ALPHABET)] for i in range(n))
    s, t = word("s"), word("t")
    if s == t:
        return
    for kind, f, frev in _pairs()[:2]:
        E.prove(frev(s) != frev(t), "escape-is-injective", kind=kind, s=s, t=t, cls=_cls(s + t))


# ----------------------------------------------------------------------------- document layer (DESIGN 10.5)
def _norm_annotation(o):
    """cobrapy's SBML annotation format stores a provider's single identifier as a string and several as a list: compare
    annotation values as lists of identifiers"""
    for kind in ("rxn", "met", "gene", "group"):
        for d in o.get(kind, {}).values():
            if isinstance(d, dict) and isinstance(d.get("annotation"), dict):
                d["annotation"] = {k: ([v] if isinstance(v, str) else v) for k, v in d["annotation"].items()}
    return o


def c10_document(E, with_groups=("none", "reactions+metabolites", "reactions+metabolites+genes")):
    """write_sbml_model / read_sbml_model through the real _model_to_sbml and _sbml_to_model with symbolic stoichiometric
    coefficients, bounds and objective coefficient.  Symbolic paths run on the libsbml stand-in (vlib/fakesbml.py), their
    witnesses on the real libsbml, where the written document is also put to validate_sbml_model."""
    import io
    import cobra
    from cobra.core import Group
    from cobra.io import read_sbml_model, validate_sbml_model, write_sbml_model
    from vlib import env
    from vlib.observe import observe, same
    from vlib.ops import base_model
    env.for_path(E)
    cfgb = E.pick("config_bounds", [(-1000.0, 1000.0), (-10.0, 10.0)])
    cfg = cobra.Configuration()
    old = cfg.bounds
    cfg.bounds = cfgb
    try:
        from vlib import ops as _ops
        degenerate = E.pick("degenerate_members", ["none", "reaction-without-metabolites+metabolite-in-no-reaction"])
        _ops.DEGENERATE[0] = degenerate != "none"
        try:
            m = base_model(E, groups=False)
        finally:
            _ops.DEGENERATE[0] = True
        r1 = m.reactions.R1
        kind = E.pick("bounds_kind", ["finite", "ub=+inf", "lb=-inf", "both-inf", "ub=0", "lb=default-lb", "ub=default-ub",
                                      "factory-defaults(-1000,1000)"])
        if kind == "ub=+inf":
            r1.bounds = (r1.lower_bound, float("inf"))
        elif kind == "lb=-inf":
            r1.bounds = (float("-inf"), r1.upper_bound)
        elif kind == "both-inf":
            r1.bounds = (float("-inf"), float("inf"))
        elif kind == "ub=0":
            r1.bounds = (min(-1.0, cfgb[0]), 0.0)
        elif kind == "lb=default-lb":
            r1.bounds = (cfgb[0], float("inf"))
        elif kind == "ub=default-ub":
            r1.bounds = (float("-inf"), cfgb[1])
        elif kind.startswith("factory-defaults"):
            r1.bounds = (-1000.0, 1000.0)       # the defaults cobrapy ships with, whatever is configured now
        oc = E.real("objective_coefficient_R1", -5, 5)
        objkind = E.pick("objective", ["two-coefficients", "empty"])
        if objkind == "empty":
            from optlang.symbolics import Zero
            m.objective = m.problem.Objective(Zero, sloppy=True)
        else:
            m.objective = {m.reactions.DM_B: 1, r1: oc}
        direction = E.pick("direction", ["max", "min"])
        m.objective_direction = direction
        m.metabolites.B.charge = -2
        m.metabolites.P.charge = 1
        m.metabolites.B.formula = E.pick("formula_B", [None, "H2O"])
        for g in m.genes:
            g.name = "gene " + g.id
        m.genes.g1.annotation = {"ncbigene": ["1", "2"]}
        m.metabolites.A.annotation = {"kegg.compound": ["C21", "C2"], "chebi": ["CHEBI:17234"]}     # an identifier contained in another
        m.metabolites.B.annotation = {"kegg.compound": "C2", "sbo": "SBO:0000247"}
        m.reactions.EX_A.annotation = {"sbo": "SBO:0000627"}
        m.notes = {"k": "v"}
        ids = E.pick("identifiers", ["plain", "awkward"])
        if ids == "awkward":
            # identifiers that need escaping in SBML (the default F_REPLACE functions), in every place they are referred to:
            # species references, gene rules, flux objectives, group members
            from cobra.manipulation import rename_genes
            m.metabolites.B.id = "b-1.x"
            m.reactions.R2.id = "R2-a(b)"
            m.reactions.DM_B.id = "DM-b"
            rename_genes(m, {"g2": "g2.1", "g3": "3-g"})
        grp = E.pick("groups", list(with_groups))
        if grp != "none":
            r2 = m.reactions.get_by_id("R2-a(b)" if ids == "awkward" else "R2")
            from cobra import Metabolite
            twin = Metabolite("R1", compartment="c", name="named like a reaction")      # ids are unique per kind only
            m.add_metabolites([twin])
            m.add_groups([Group("G1", name="group one", kind="partonomy",
                                members=[m.reactions.R1, m.metabolites.A] + ([m.genes.g1] if grp.endswith("genes") else [])),
                          Group("G-2" if ids == "awkward" else "G2", name="second", kind="collection",
                                members=[r2, m.metabolites.get_by_id("b-1.x" if ids == "awkward" else "B")]
                                + [twin] + ([m.genes.get_by_id("3-g" if ids == "awkward" else "g3")] if grp.endswith("genes") else [])),
                          Group("G3", name="no members yet", kind="classification")])
        E.note(direction=direction, config_bounds=str(cfgb), bounds_kind=kind, groups=grp, identifiers=ids, objective=objkind)
        a = observe(m)
        number = env.Float if E.symbolic else float
        try:
            f = io.StringIO()
            write_sbml_model(m, f)
            text = f.getvalue()
            m2 = read_sbml_model(io.StringIO(text), number=number)
        except vsym_Concretized:
            raise
        except Exception as e:
            E.prove(False, "export-and-import-do-not-fail", exc=type(e).__name__, msg=str(e)[:200])
            return
        E.prove(True, "export-and-import-do-not-fail")
        same(E, a, observe(m), "writing-leaves-the-model-alone")
        if not E.symbolic:
            _, errors = validate_sbml_model(io.StringIO(text))
            bad = {k: v[:2] for k, v in errors.items() if v and k in ("SBML_FATAL", "SBML_ERROR", "SBML_SCHEMA_ERROR", "COBRA_FATAL", "COBRA_ERROR")}
            E.prove(not bad, "written-document-validates", errors=str(bad)[:300], objective=objkind, degenerate=degenerate)
        b = observe(m2)
        skip = ("index_ok",)
        for o in (a, b):
            _norm_annotation(o)
            for d in o.get("rxn", {}).values():
                if isinstance(d, dict):
                    d.pop("subsystem", None)        # on import a reaction's subsystem is taken from its group (documented)
        same(E, a, b, "roundtrip=same-model", skip=skip, what="sbml")
        try:
            f2 = io.StringIO()
            write_sbml_model(m2, f2)
            m3 = read_sbml_model(io.StringIO(f2.getvalue()), number=number)
        except vsym_Concretized:
            raise
        except Exception as e:
            E.prove(False, "second-roundtrip-is-identity", exc=type(e).__name__)
            return
        c = observe(m3)
        b2 = observe(m2)
        for o in (b2, c):
            _norm_annotation(o)
        same(E, b2, c, "second-roundtrip-is-identity", skip=skip, what="sbml")
    finally:
        cfg.bounds = old


from vlib.vsym import Concretized as vsym_Concretized  # noqa: E402

def c10_foreign(E):
    """"Reading a valid third-party SBML file never silently alters stoichiometry, bounds or objective": a document is built
    directly through the libsbml API (the stand-in on symbolic paths, the real library on replays) in shapes cobrapy's own writer
    never produces - a species listed twice on one side or on both sides of a reaction, one bound parameter shared by several
    reactions, bounds missing, two flux objectives, minimisation - with symbolic stoichiometries, parameter values and
    objective coefficients, and read with the real _sbml_to_model."""
    import cobra.io.sbml as sb
    from vlib import env
    from vlib.vsym import lift
    env.for_path(E)
    L = sb.libsbml
    ns = L.SBMLNamespaces(3, 1)
    ns.addPackageNamespace("fbc", 2)
    doc = L.SBMLDocument(ns)
    doc.setPackageRequired("fbc", False)
    model = doc.createModel()
    model.setId("third_party")
    model.getPlugin("fbc").setStrict(True)
    c = model.createCompartment()
    c.setId("c")
    c.setConstant(True)
    for sid in ("M_a", "M_b", "M_h"):
        sp = model.createSpecies()
        sp.setId(sid)
        sp.setCompartment("c")
        sp.setConstant(False)
        sp.setBoundaryCondition(False)
        sp.setHasOnlySubstanceUnits(False)
    vals = {"p_lo": E.real("p_lo", -50, 0), "p_hi": E.real("p_hi", 0, 50), "p_own": E.real("p_own", -50, 50)}
    E.assume(E.le(vals["p_own"], vals["p_hi"]))
    for pid, v in vals.items():
        p = model.createParameter()
        p.setId(pid)
        p.setValue(v)
        p.setConstant(True)
    shape = E.pick("species_references", ["plain", "twice-among-reactants", "both-sides", "both-sides-cancelling"])
    s1, s2, s3 = E.real("s1", 0.25, 4), E.real("s2", 0.25, 4), E.real("s3", 0.25, 4)
    layout = {"plain": ([("M_a", s1), ("M_h", s2)], [("M_b", s3)]),
              "twice-among-reactants": ([("M_a", s1), ("M_h", s2), ("M_a", s3)], [("M_b", 1.0)]),
              "both-sides": ([("M_a", 1.0), ("M_h", s1)], [("M_b", s2), ("M_h", s3)]),
              "both-sides-cancelling": ([("M_a", s1), ("M_h", s2)], [("M_b", s3), ("M_h", s2)])}[shape]
    bounds_kind = E.pick("bounds", ["shared-parameters", "own-lower", "missing"])
    rdefs = [("R_conv", layout), ("R_src", ([], [("M_a", 1.0)])), ("R_snk", ([("M_b", 1.0)], []))]
    for rid, (reac, prod) in rdefs:
        r = model.createReaction()
        r.setId(rid)
        r.setReversible(True)
        r.setFast(False)
        for lst, make in ((reac, r.createReactant), (prod, r.createProduct)):
            for sid, st in lst:
                ref = make()
                ref.setSpecies(sid)
                ref.setStoichiometry(st)
                ref.setConstant(True)
        fb = r.getPlugin("fbc")
        if bounds_kind != "missing" or rid != "R_conv":
            fb.setLowerFluxBound("p_own" if (bounds_kind == "own-lower" and rid == "R_conv") else "p_lo")
            fb.setUpperFluxBound("p_hi")
    mf = model.getPlugin("fbc")
    obj = mf.createObjective()
    obj.setId("obj")
    direction = E.pick("direction", ["maximize", "minimize"])
    obj.setType(direction)
    mf.setActiveObjectiveId("obj")
    c1, c2 = E.real("c_snk", -5, 5), E.real("c_conv", -5, 5)
    for rid, co in (("R_snk", c1), ("R_conv", c2)):
        fo = obj.createFluxObjective()
        fo.setReaction(rid)
        fo.setCoefficient(co)
    E.note(species_references=shape, bounds=bounds_kind, direction=direction)
    number = env.Float if E.symbolic else float
    try:
        m = sb._sbml_to_model(doc, number=number)
    except Exception as e:
        if isinstance(e, vsym_Concretized):
            raise
        E.prove(False, "valid-third-party-document-loads", exc=type(e).__name__, msg=str(e)[:200])
        return
    E.prove(sorted(r.id for r in m.reactions) == ["conv", "snk", "src"], "reactions-as-in-the-document", got=[r.id for r in m.reactions])
    if "conv" not in m.reactions:
        return
    # net stoichiometry per species
    net = {}
    for sid, st in layout[0]:
        net[sid[2:]] = net.get(sid[2:], 0) - st
    for sid, st in layout[1]:
        net[sid[2:]] = net.get(sid[2:], 0) + st
    got = {mt.id: co for mt, co in m.reactions.conv.metabolites.items()}
    for mid, want in net.items():
        if mid in got:
            E.prove(E.eq(got[mid], want), "stoichiometry=net-of-the-species-references", met=mid, shape=shape)
        else:
            E.prove(E.eq(want, 0), "stoichiometry=net-of-the-species-references", met=mid, shape=shape, got="absent")
    E.prove(set(got) <= set(net), "stoichiometry=net-of-the-species-references", extra=sorted(set(got) - set(net)))
    import cobra
    cfg = cobra.Configuration()
    want_lb = {"shared-parameters": vals["p_lo"], "own-lower": vals["p_own"], "missing": cfg.lower_bound}[bounds_kind]
    want_ub = cfg.upper_bound if bounds_kind == "missing" else vals["p_hi"]
    E.prove(E.all_of([E.eq(m.reactions.conv.lower_bound, want_lb), E.eq(m.reactions.conv.upper_bound, want_ub)]),
            "bounds=parameter-values", reaction="conv", kind=bounds_kind)
    for rid in ("src", "snk"):
        r = m.reactions.get_by_id(rid)
        E.prove(E.all_of([E.eq(r.lower_bound, vals["p_lo"]), E.eq(r.upper_bound, vals["p_hi"])]), "bounds=parameter-values", reaction=rid)
    from cobra.util.solver import linear_reaction_coefficients
    oc = {r.id: co for r, co in linear_reaction_coefficients(m).items()}
    for rid, want in (("snk", c1), ("conv", c2)):
        E.prove(E.eq(oc.get(rid, 0), want), "objective-coefficients-as-in-the-document", reaction=rid)
    E.prove(set(oc) <= {"snk", "conv"}, "objective-coefficients-as-in-the-document", extra=sorted(set(oc) - {"snk", "conv"}))
    E.prove(m.objective_direction == ("max" if direction == "maximize" else "min"), "objective-direction-as-in-the-document",
            got=m.objective_direction)



HARNESSES = [
    H("c10_document", c10_document, quick=dict(max_paths=20000, time_budget=70), thorough=dict(max_paths=200000, time_budget=400),
      witness_every=25,
      bounds="base model (5 reactions, 3 metabolites, 3 genes); R1 with symbolic coefficients [1/4,4], bounds in [-2000,2000] or "
             "infinite / 0 / configured default by choice, symbolic objective coefficient in [-5,5]; direction max/min; "
             "Configuration().bounds (-1000,1000)/(-10,10); charge / formula / annotation / notes tables; groups of reactions and "
             "metabolites (and genes) or none; default F_REPLACE id escaping; libsbml replaced by a documented stand-in on symbolic paths, "
             "the real libsbml (plus validate_sbml_model) on every 25th path's witness"),
    H("c10_foreign", c10_foreign, quick=dict(max_paths=20000, time_budget=40), thorough=dict(max_paths=200000, time_budget=200),
      witness_every=10,
      bounds="a 3-reaction, 3-species document built through the libsbml API: species referenced twice on one side / on both sides / "
             "cancelling; bound parameters shared, own, or missing; two flux objectives; maximize/minimize; symbolic stoichiometries "
             "[1/4,4], parameter values [-50,50], objective coefficients [-5,5]"),
    H("c10_enumerate", c10_enumerate, tiers=("quick",), quick=dict(max_paths=40000, time_budget=60), witness_every=500,
      bounds="every string of length 1..4 over the class alphabet %r (letter, prefix letter, digits, '_', '.', 2-digit-code, "
             "3-digit-code, non-ASCII 3- and 4-digit-code characters, blank); 4 id kinds" % ALPHABET),
    H("c10_enumerate5", lambda E: c10_enumerate(E, 5), tiers=("thorough",), thorough=dict(max_paths=400000, time_budget=400),
      witness_every=5000, bounds="length 1..5"),
    H("c10_injective", c10_injective, tiers=("quick",), quick=dict(max_paths=60000, time_budget=60),
      witness_every=2000, bounds="all pairs of distinct strings of length <= 2 over the class alphabet; reaction and species ids"),
    H("c10_injective3", lambda E: c10_injective(E, 3), tiers=("thorough",), thorough=dict(max_paths=3000000, time_budget=400),
      witness_every=20000, bounds="all pairs of distinct strings of length <= 3"),
]


# ----------------------------------------------------------------------------- CrossHair driver (vlib/chdriver.py)
def run_crosshair(budget):
    from vlib import chdriver
    return chdriver.run("c10_ids.py", budget)


def _replay_cex(cond, cex):
    """replay a CrossHair counterexample with plain Python on the real functions"""
    import ast
    try:
        m = re.match(r"(?:s\s*=\s*)?(.*)$", cex.strip())
        s = ast.literal_eval(m.group(1))
    except Exception:
        return None, None
    import cobra.io.sbml as sb
    if "reaction" in cond or "twin" in cond:
        ok = sb._f_reaction(sb._f_reaction_rev(s)) == s
    elif "specie" in cond:
        ok = sb._f_specie(sb._f_specie_rev(s)) == s
    elif "gene" in cond and "sid" not in cond:
        ok = sb._f_gene(sb._f_gene_rev(s)) == s
    elif "group" in cond:
        ok = sb._f_group(sb._f_group_rev(s)) == s
    elif "sid_reaction" in cond:
        ok = bool(SID.match(sb._f_reaction_rev(s)))
    else:
        ok = bool(SID.match(sb._f_gene_rev(s)))
    return s, (not ok)


def main(tier, seed, args):
    if args.replay:
        return runner.replay_file(args.replay, HARNESSES)
    t0 = time.time()
    budget = 45 if tier == "quick" else 150
    ch = run_crosshair(budget)
    known = runner.load_known()
    lines = []
    viol = 0
    incon = 0
    for r in ch:
        if r["condition"] == "_twin_reachable":
            # reachability twin: its post-condition False must be refuted
            r["twin_ok"] = r["verdict"] == "counterexample"
            if not r["twin_ok"]:
                incon += 1
            continue
        if r["verdict"] == "counterexample":
            s, repro = _replay_cex(r["condition"], r["counterexample"])
            r["replayed_on_real_code"] = repro
            if repro:
                f = dict(label="crosshair:" + r["condition"], detail=dict(cls=_cls(s), id=s, condition=r["condition"]))
                k = runner.match_known(known, PID, "crosshair", f)
                if k:
                    lines.append("KNOWN-FINDING: property=%s %s" % (PID, k["what"]))
                else:
                    path = runner.write_replay(PID, "crosshair", dict(label=f["label"], inputs={"s": s}, detail=f["detail"]), {})
                    lines.append("VIOLATION property=%s replay=%s\n  crosshair %s counterexample s=%r" % (PID, path, r["condition"], s))
                    viol += 1
            else:
                incon += 1
    extra = dict(crosshair=ch, crosshair_budget_s=budget,
                 crosshair_note="verdict 'no-counterexample-within-budget' is CrossHair's 'Not confirmed': a bounded search, not exhaustive")
    code = runner.run_check(PID, tier, HARNESSES, seed=seed, only=args.only.split(",") if args.only else None,
                            extra_evidence=extra,
                            assumptions=["document layer: libsbml replaced by the documented stand-in vlib/fakesbml.py on symbolic paths "
                                         "(XML text layer, validity of the document and the libsbml parser on witness replays only)",
                                         "strings of bounded length; CrossHair's symbolic str model of re.sub"])
    for l in sorted(set(lines)):
        print(l)
    print("C10 crosshair: %s" % json.dumps({r["condition"]: r["verdict"] for r in ch}))
    if viol:
        return 1
    if code == 0 and incon:
        print("INCONCLUSIVE: crosshair reachability twin not refuted or counterexample not reproduced")
        return 2
    return code
