#!/bin/sh
# setup_cmd: build the overlay venv (offline). Idempotent; ./check calls it too when .venv is missing.
set -e
cd "$(dirname "$0")"
if [ ! -x .venv/bin/python ] || ! .venv/bin/python -c "import z3, crosshair, cobra" 2>/dev/null; then
  rm -rf .venv
  /venv/bin/python -m venv .venv
  SP=$(.venv/bin/python -c "import sysconfig; print(sysconfig.get_paths()['purelib'])")
  printf "import site; site.addsitedir('/venv/lib/python3.12/site-packages')\n" > "$SP/_overlay.pth"
  PIP_NO_INDEX=1 .venv/bin/pip install -q --no-index --find-links /opt/veriftools/wheels z3-solver crosshair-tool
fi
.venv/bin/python -c "import z3, crosshair, cobra; print('overlay ok', z3.get_version_string(), cobra.__file__)"
