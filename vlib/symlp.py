"""symlp - an optlang-compatible *LP contract stub* (DESIGN.md section 2.2).

It records the LP that cobrapy builds through the optlang API (reusing optlang's own
pure-python ``Model.add/remove/update`` machinery and ``Container``) and, on
``optimize()``, does not run any algorithm: it returns *fresh symbolic* primal and
dual values constrained only by LP optimality (KKT), or the status
infeasible / unbounded exactly under the condition that makes it true.

Registered at run time:  cobra.util.solver.solvers["symlp"] = <this module>.
"""
import itertools
import math
import sys
import uuid

import optlang.interface as oi
import sympy
import z3
from optlang.container import Container  # noqa: F401  (re-export, parity with interfaces)
from optlang.interface import (  # noqa: F401
    FEASIBLE, INFEASIBLE, OPTIMAL, UNBOUNDED, UNDEFINED, statuses)

from . import vsym
from .vsym import SymReal, NotModelled, lift, rv

_is_sym = lambda x: isinstance(x, SymReal)  # noqa: E731
MILP_MAX_ASSIGNMENTS = 64
BAND = 1e-3      # see _optimize: instances infeasible by less than BAND (absolute, bounds are O(10)) are excluded: GLPK was seen to call an LP infeasible by 1.5e-4 optimal


def _numeric_or_none(v, what):
    if v is None or isinstance(v, SymReal) or vsym._is_num(v):
        return
    if isinstance(v, sympy.Basic) and v.is_Number:
        return
    raise TypeError("%s must be numeric or None." % what)


def _conc_zero(c):
    return (not isinstance(c, SymReal)) and c == 0


# --------------------------------------------------------------------------- expressions
class LinExpr(object):
    """linear expression  sum coef*var + const ; coefficients may be SymReal"""
    __slots__ = ("c", "k")
    is_Atom = False
    is_Mul = False
    is_Add = True
    is_Number = False
    is_Pow = False

    def __init__(self, c=None, k=0):
        self.c = dict(c) if c else {}
        self.k = k

    @staticmethod
    def of(x):
        if isinstance(x, LinExpr):
            return x
        if isinstance(x, Variable):
            return LinExpr({x: 1.0})
        if x is None:
            return LinExpr()
        if isinstance(x, SymReal) or vsym._is_num(x):
            return LinExpr(None, x)
        if isinstance(x, sympy.Basic):
            if x.is_Number:
                return LinExpr(None, float(x))
            out = LinExpr()
            for term, coef in x.as_coefficients_dict().items():
                if isinstance(term, Variable):
                    out.c[term] = out.c.get(term, 0) + float(coef)
                elif term == 1:
                    out.k = out.k + float(coef)
                elif term.is_Mul and len(term.args) == 2 and term.args[0].is_Number \
                        and isinstance(term.args[1], Variable):
                    out.c[term.args[1]] = out.c.get(term.args[1], 0) + float(coef) * float(term.args[0])
                else:
                    raise NotModelled("non-linear / foreign sympy term %r" % (term,))
            return out
        raise TypeError("cannot make a linear expression from %r" % (x,))

    def copy(self):
        return LinExpr(self.c, self.k)

    # sympy-ish read API used by cobra / optlang
    def as_coefficients_dict(self):
        d = dict(self.c)
        if not _conc_zero(self.k):
            d[1] = self.k
        return d

    def atoms(self, *types):
        return set(self.c)

    @property
    def free_symbols(self):
        return set(self.c)

    @property
    def args(self):
        return tuple(co * v for v, co in self.c.items())

    def expand(self):
        return self

    # a few more of sympy's read-only predicates, so that code written against sympy expressions keeps working
    @property
    def is_zero(self):
        r = True
        for co in list(self.c.values()) + [self.k]:
            z = (co == 0)
            if z is False:
                return False
            if z is not True:
                r = z if r is True else (r & z)
        return r if isinstance(r, bool) else bool(r)

    @property
    def is_number(self):
        return not self.c

    is_constant = lambda self, *a: not self.c  # noqa: E731

    def coeff(self, v, n=1):
        return self.c.get(v, 0)

    def subs(self, *args, **kw):
        rep = dict(args[0]) if len(args) == 1 else {args[0]: args[1]}
        return self.xreplace(rep)

    def simplify(self, **kw):
        return self

    def evalf(self, *a, **kw):
        return self

    def equals(self, other):
        r = self.__eq__(other)
        return r if isinstance(r, bool) else bool(r)

    def __bool__(self):
        return not (self.is_zero is True)

    def xreplace(self, rep):
        out = LinExpr(None, self.k)
        for v, co in self.c.items():
            if v in rep:
                r = rep[v]
                if isinstance(r, Variable):
                    out.c[r] = out.c.get(r, 0) + co
                elif vsym._is_num(r) and r == 0:
                    continue
                else:
                    out = out + LinExpr.of(r) * co
            else:
                out.c[v] = out.c.get(v, 0) + co
        return out

    def set_coef(self, v, co):
        # GLPK does not store zero coefficients.  A symbolic coefficient that may be zero forks the path here
        # (zero: entry dropped / non-zero: stored), so that the two cases are explored as GLPK would see them.
        if _conc_zero(co) or (isinstance(co, SymReal) and bool(co == 0)):
            self.c.pop(v, None)
        else:
            self.c[v] = co

    # arithmetic
    def __add__(self, o):
        try:
            o = LinExpr.of(o)
        except TypeError:
            return NotImplemented
        out = LinExpr(self.c, self.k + o.k)
        for v, co in o.c.items():
            out.set_coef(v, out.c.get(v, 0) + co)
        return out

    __radd__ = __add__

    def __neg__(self):
        return self * -1

    def __sub__(self, o):
        try:
            o = LinExpr.of(o)
        except TypeError:
            return NotImplemented
        return self + (o * -1)

    def __rsub__(self, o):
        return (self * -1) + o

    def __mul__(self, o):
        if isinstance(o, (LinExpr, Variable)):
            o = LinExpr.of(o)
            if not o.c:
                o = o.k
            elif not self.c:
                return o * self.k
            else:
                raise NotModelled("product of two linear expressions (quadratic)")
        if isinstance(o, sympy.Basic) and o.is_Number:
            o = float(o)
        if not (isinstance(o, SymReal) or vsym._is_num(o)):
            return NotImplemented
        out = LinExpr(None, self.k * o)
        for v, co in self.c.items():
            out.set_coef(v, co * o)
        return out

    __rmul__ = __mul__

    def __truediv__(self, o):
        if isinstance(o, SymReal) or vsym._is_num(o):
            return self * (1 / o)
        return NotImplemented

    def __eq__(self, o):
        try:
            o = LinExpr.of(o)
        except (TypeError, NotModelled):
            return False
        keys = set(self.c) | set(o.c)
        res = True
        for v in keys:
            r = (self.c.get(v, 0) == o.c.get(v, 0))
            if r is False:
                return False
            if r is not True:
                res = r if res is True else (res & r)
        r = (self.k == o.k)
        if r is False:
            return False
        if r is not True:
            res = r if res is True else (res & r)
        return res

    def __ne__(self, o):
        r = self.__eq__(o)
        return (not r) if isinstance(r, bool) else ~r

    __hash__ = None

    def __str__(self):
        bits = ["%s*%s" % (co if not _is_sym(co) else "<%s>" % co.t, v.name) for v, co in self.c.items()]
        if not _conc_zero(self.k):
            bits.append(str(self.k))
        return " + ".join(bits) if bits else "0"

    __repr__ = __str__

    def __deepcopy__(self, memo):
        raise TypeError("LinExpr is copied through the owning Model only")


def _vbin(f):
    def op(self, o):
        try:
            return f(LinExpr.of(self), o)
        except TypeError:
            return NotImplemented
    return op


# --------------------------------------------------------------------------- variable
class Variable(oi.Variable):
    """optlang variable whose bounds may be symbolic; arithmetic yields LinExpr"""

    def __init__(self, name, lb=None, ub=None, type="continuous", problem=None, *args, **kwargs):
        if len(name) < 1:
            raise ValueError("Variable name must not be empty string")
        for ch in name:
            if ch.isspace():
                raise ValueError(
                    'Variable names cannot contain whitespace characters. "%s" contains whitespace '
                    'character "%s".' % (name, ch))
        self._name = name
        sympy.core.Dummy.__init__(self)
        _numeric_or_none(lb, "Variable bounds")
        _numeric_or_none(ub, "Variable bounds")
        self._lb = lb
        self._ub = ub
        if type == "binary":
            self._lb = 0. if lb is None else lb
            self._ub = 1. if ub is None else ub
        if type not in ("continuous", "integer", "binary"):
            raise ValueError("'%s' is not a valid variable type." % type)
        self._type = type
        self.problem = problem

    # bounds ------------------------------------------------------------------
    @property
    def lb(self):
        return self._lb

    @lb.setter
    def lb(self, value):
        _numeric_or_none(value, "Variable bounds")
        if self._ub is not None and value is not None and value > self._ub:
            raise ValueError("The provided lower bound is larger than the upper bound of variable %s."
                             % self.name)
        self._lb = value
        if self.problem is not None:
            self.problem._pending_modifications.var_lb.append((self, value))

    @property
    def ub(self):
        return self._ub

    @ub.setter
    def ub(self, value):
        _numeric_or_none(value, "Variable bounds")
        if self._lb is not None and value is not None and value < self._lb:
            raise ValueError("The provided upper bound is smaller than the lower bound of variable %s."
                             % self.name)
        self._ub = value
        if self.problem is not None:
            self.problem._pending_modifications.var_ub.append((self, value))

    def set_bounds(self, lb, ub):
        if lb is not None and ub is not None and lb > ub:
            raise ValueError("The provided lower bound {} is larger than the provided upper bound {}"
                             .format(lb, ub))
        self._lb = lb
        self._ub = ub
        if self.problem is not None:
            self.problem._pending_modifications.var_lb.append((self, lb))
            self.problem._pending_modifications.var_ub.append((self, ub))

    @property
    def type(self):
        return self._type

    @type.setter
    def type(self, value):
        if value not in ("continuous", "integer", "binary"):
            raise ValueError("'%s' is not a valid variable type." % value)
        self._type = value
        if value == "binary":
            self._lb, self._ub = 0, 1

    # solution ------------------------------------------------------------------
    def _get_primal(self):
        return self.problem._sol_get("x", self)

    @property
    def dual(self):
        if self.problem:
            if self.problem.is_integer:
                raise ValueError("Dual values are not well-defined for integer problems")
            return self.problem._sol_get("d", self)
        return None

    # arithmetic -> LinExpr ---------------------------------------------------------
    __add__ = _vbin(lambda a, b: a + b)
    __radd__ = _vbin(lambda a, b: a + b)
    __sub__ = _vbin(lambda a, b: a - b)
    __rsub__ = _vbin(lambda a, b: b - a)
    __mul__ = _vbin(lambda a, b: a * b)
    __rmul__ = _vbin(lambda a, b: a * b)
    __truediv__ = _vbin(lambda a, b: a / b)

    def __neg__(self):
        return LinExpr({self: -1.0})

    def __pos__(self):
        return LinExpr({self: 1.0})

    def __pow__(self, k):
        raise NotModelled("power of a variable")

    def __str__(self):
        return "%s <= %s <= %s" % (self._lb, self._name, self._ub)

    __repr__ = __str__

    def __reduce__(self):
        return (Variable, (self._name, self._lb, self._ub, self._type))

    def __deepcopy__(self, memo):
        # variables are cloned through Model.__deepcopy__; a free-standing variable copies by value
        return Variable(self._name, self._lb, self._ub, self._type)


# --------------------------------------------------------------------------- constraint / objective
class _ExprMixin(object):
    @property
    def is_Linear(self):
        return True

    @property
    def is_Quadratic(self):
        return False

    @property
    def variables(self):
        return self.expression.atoms(Variable)

    def _get_expression(self):
        return self._expression

    def get_linear_coefficients(self, variables):
        if self.problem is None:
            raise Exception("Can't get coefficients from solver if %s is not in a model"
                            % type(self).__name__.lower())
        self.problem.update()
        return {v: self._expression.c.get(v, 0.0) for v in variables}


class Constraint(_ExprMixin, oi.Constraint):
    _INDICATOR_CONSTRAINT_SUPPORT = False

    def __init__(self, expression, lb=None, ub=None, indicator_variable=None, active_when=1,
                 name=None, problem=None, sloppy=False, **kwargs):
        self._validate_optimization_expression_name(name)
        if indicator_variable is not None:
            raise oi.IndicatorConstraintsNotSupported(
                "Solver interface symlp does not support indicator constraints")
        self._problem = None
        self._lb = None
        self._ub = None
        self.lb = lb
        self.ub = ub
        self._expression = self._canonicalize(expression, sloppy)
        self._name = str(uuid.uuid1()) if name is None else name
        self._indicator_variable = None
        self._active_when = active_when
        self._problem = problem

    def _canonicalize(self, expression, sloppy=False):
        e = LinExpr.of(expression)
        if e is expression:
            e = e.copy()
        if sloppy or _conc_zero(e.k):
            return e
        k = e.k
        e.k = 0
        if self._lb is None and self._ub is None:
            raise ValueError("%s cannot be shaped into canonical form if neither lower or upper "
                             "constraint bounds are set." % e)
        if self._lb is not None:
            self._lb = self._lb - k
        if self._ub is not None:
            self._ub = self._ub - k
        return e

    def _check_valid_lower_bound(self, value):
        _numeric_or_none(value, "Constraint bounds")
        if value is not None and getattr(self, "_ub", None) is not None and value > self._ub:
            raise ValueError("Cannot set a lower bound that is greater than the upper bound.")

    def _check_valid_upper_bound(self, value):
        _numeric_or_none(value, "Constraint bounds")
        if value is not None and getattr(self, "_lb", None) is not None and value < self._lb:
            raise ValueError("Cannot set an upper bound that is less than the lower bound.")

    @property
    def lb(self):
        return self._lb

    @lb.setter
    def lb(self, value):
        self._check_valid_lower_bound(value)
        self._lb = value

    @property
    def ub(self):
        return self._ub

    @ub.setter
    def ub(self, value):
        self._check_valid_upper_bound(value)
        self._ub = value

    @property
    def name(self):
        return self._name

    @name.setter
    def name(self, value):
        self._validate_optimization_expression_name(value)
        old = self._name
        self._name = value
        if self._problem is not None and value != old:
            self._problem.constraints.update_key(old)

    @property
    def problem(self):
        return self._problem

    @problem.setter
    def problem(self, value):
        self._problem = value

    def set_linear_coefficients(self, coefficients):
        if self._problem is None:
            raise Exception("Can't change coefficients if constraint is not associated with a model.")
        self._problem.update()
        for v, co in coefficients.items():
            if v.problem is not self._problem:
                raise Exception("variable %s is not in the model" % v.name)
            if isinstance(co, sympy.Basic):
                co = float(co)
            elif not isinstance(co, SymReal):
                co = float(co)
            self._expression.set_coef(v, co)

    @property
    def primal(self):
        if self._problem is None:
            return None
        return self._problem._row_activity(self)

    @property
    def dual(self):
        if self._problem is None:
            return None
        if self._problem.is_integer:
            raise ValueError("Dual values are not well-defined for integer problems")
        return self._problem._sol_get("y", self)

    def __iadd__(self, other):
        self._expression = self._expression + other
        return self

    def __isub__(self, other):
        self._expression = self._expression - other
        return self

    def __imul__(self, other):
        self._expression = self._expression * other
        return self

    def __str__(self):
        return "%s: %s <= %s <= %s" % (self._name, self._lb, self._expression, self._ub)

    def __deepcopy__(self, memo):
        raise TypeError("constraints are copied through Model only")


class Objective(_ExprMixin, oi.Objective):
    def __init__(self, expression, value=None, direction="max", name=None, problem=None,
                 sloppy=False, **kwargs):
        self._validate_optimization_expression_name(name)
        if name is not None and len(name) > 256:
            raise ValueError("GLPK does not support ID's longer than 256 characters")
        if direction not in ("max", "min"):
            raise ValueError("Provided optimization direction %s is neither 'min' or 'max'." % direction)
        self._value = value
        self._direction = direction
        self._problem = problem
        e = LinExpr.of(expression)
        self._expression = e.copy() if e is expression else e      # the LP's objective row (always current)
        self._shown = None              # optlang.glpk_interface caches .expression and refreshes it only after
        self._expression_expired = False  # set_linear_coefficients; a removed variable stays in the cached text
        self._name = str(uuid.uuid1()) if name is None else name

    def _get_expression(self):
        if self._shown is None or (self._problem is not None and self._expression_expired):
            self._shown = self._expression.copy()
            self._expression_expired = False
        return self._shown

    @property
    def expression(self):
        return self._get_expression()

    @property
    def value(self):
        if self._problem is None:
            return None
        return self._problem._sol_obj()

    @property
    def direction(self):
        return self._direction

    @direction.setter
    def direction(self, value):
        if value not in ("max", "min"):
            raise ValueError("Provided optimization direction %s is neither 'min' or 'max'." % value)
        self._direction = value

    def set_linear_coefficients(self, coefficients):
        if self._problem is None:
            raise Exception("Can't change coefficients if objective is not associated with a model.")
        self._problem.update()
        for v, co in coefficients.items():
            if v.problem is not self._problem:
                raise Exception("variable %s is not in the model" % v.name)
            if not isinstance(co, SymReal):
                co = float(co)
            self._expression.set_coef(v, co)
        self._expression_expired = True

    def __eq__(self, other):
        if isinstance(other, oi.Objective):
            r = (self.expression == other.expression)
            if r is False:
                return False
            d = self.direction == other.direction
            return (r if d else False)
        return False

    def __ne__(self, other):
        r = self.__eq__(other)
        return (not r) if isinstance(r, bool) else ~r

    __hash__ = object.__hash__

    def __iadd__(self, other):
        self._problem = None
        self._expression = self.expression + other
        self._shown = None
        return self

    def __isub__(self, other):
        self._problem = None
        self._expression = self.expression - other
        self._shown = None
        return self

    def __imul__(self, other):
        self._problem = None
        self._expression = self.expression * other
        self._shown = None
        return self

    def __str__(self):
        return {"max": "Maximize", "min": "Minimize"}[self._direction] + "\n" + str(self._expression)

    def __deepcopy__(self, memo):
        raise TypeError("objectives are copied through Model only")


# --------------------------------------------------------------------------- configuration
class _Tolerances(object):
    def __init__(self):
        self.feasibility = 1e-7
        self.optimality = 1e-7
        self.integrality = 1e-5


class Configuration(oi.MathematicalProgrammingConfiguration):
    def __init__(self, presolve=False, verbosity=0, timeout=None, problem=None, *args, **kwargs):
        self.problem = problem
        self._presolve = presolve
        self._verbosity = verbosity
        self._timeout = timeout
        self.tolerances = _Tolerances()
        self.lp_method = "simplex"

    presolve = property(lambda s: s._presolve, lambda s, v: setattr(s, "_presolve", v))
    verbosity = property(lambda s: s._verbosity, lambda s, v: setattr(s, "_verbosity", v))
    timeout = property(lambda s: s._timeout, lambda s, v: setattr(s, "_timeout", v))

    @classmethod
    def clone(cls, config, problem=None, **kwargs):
        c = cls(presolve=getattr(config, "presolve", False), verbosity=getattr(config, "verbosity", 0),
                timeout=getattr(config, "timeout", None), problem=problem)
        try:
            c.tolerances.feasibility = config.tolerances.feasibility
            c.tolerances.optimality = getattr(config.tolerances, "optimality", c.tolerances.optimality)
            c.tolerances.integrality = getattr(config.tolerances, "integrality", c.tolerances.integrality)
        except AttributeError:
            pass
        return c

    def __deepcopy__(self, memo):
        return Configuration.clone(self, problem=None)


# --------------------------------------------------------------------------- model
def _site():
    """names of the nearest cobra functions that called optimize()"""
    out = []
    f = sys._getframe(2)
    while f is not None and len(out) < 4:
        fn = f.f_code.co_filename
        if "/cobra/" in fn and "/vlib/" not in fn:
            out.append(f.f_code.co_name)
        f = f.f_back
    return out


class Model(oi.Model):
    def __init__(self, *args, **kwargs):
        self._sol = None
        self._nsolve = 0
        super(Model, self).__init__(*args, **kwargs)

    def _initialize_problem(self):
        self.problem = self  # some code pokes at .problem; there is no low-level object

    def _initialize_configuration(self):
        self.configuration = Configuration(problem=self)

    @property
    def interface(self):
        return sys.modules[__name__]

    # storage primitives: GLPK semantics (a deleted column disappears from every row and from
    # the objective; zero coefficients are not stored) -------------------------------------------
    def _remove_variables(self, variables):
        for variable in variables:
            try:
                self._variables[variable.name]
            except KeyError:
                raise LookupError("Variable %s not in solver" % variable.name)
        for variable in variables:
            self._variables_to_constraints_mapping.pop(variable.name, None)
            variable.problem = None
            del self._variables[variable.name]
        gone = set(variables)
        for con in self._constraints:
            for v in [v for v in con._expression.c if v in gone]:
                del con._expression.c[v]
        if self._objective is not None:
            for v in [v for v in self._objective._expression.c if v in gone]:
                del self._objective._expression.c[v]

    def _remove_constraints(self, constraints):
        for constraint in constraints:
            try:
                del self._constraints[constraint.name]
            except KeyError:
                raise LookupError("Constraint %s not in solver" % constraint)
            else:
                constraint.problem = None

    @property
    def is_integer(self):
        return any(v._type in ("integer", "binary") for v in self._variables)

    @property
    def objective(self):
        return self._objective

    @objective.setter
    def objective(self, value):
        # optlang.interface.Model.objective.fset adds variables of the expression that are not in the
        # problem (this is how a stale expression brings removed variables back) - reuse it
        value._problem = None
        shown = value.expression
        value._expression = shown.copy()
        value._shown = shown
        value._expression_expired = False
        oi.Model.objective.fset(self, value)

    # solution access --------------------------------------------------------------------------
    def _sol_get(self, kind, obj):
        if self._sol is None:
            return None
        d = self._sol[kind]
        if obj in d:
            return d[obj]
        return 0.0

    def _sol_obj(self):
        if self._sol is None:
            return None
        return self._sol["obj"]

    def _row_activity(self, con):
        if self._sol is None:
            return None
        tot = con._expression.k
        for v, co in con._expression.c.items():
            tot = tot + co * self._sol["x"].get(v, 0.0)
        return tot

    def _get_primal_values(self):
        return [self._sol_get("x", v) for v in self.variables]

    def _get_reduced_costs(self):
        if self.is_integer:
            raise ValueError("Dual values are not well-defined for integer problems")
        return [self._sol_get("d", v) for v in self.variables]

    def _get_shadow_prices(self):
        if self.is_integer:
            raise ValueError("Dual values are not well-defined for integer problems")
        return [self._sol_get("y", c) for c in self.constraints]

    def _get_constraint_values(self):
        return [self._row_activity(c) for c in self.constraints]

    # the LP contract ------------------------------------------------------------------------------
    def optimize(self):
        self.update()
        status = self._optimize()
        self._status = status
        return status

    def lp_snapshot(self):
        """plain-data view of the recorded LP (used by observe / lpspec)"""
        self.update()
        return dict(
            variables=[(v.name, v._lb, v._ub, v._type) for v in self._variables],
            constraints=[(c.name, {v.name: co for v, co in c._expression.c.items()}, c._expression.k,
                          c._lb, c._ub) for c in self._constraints],
            objective=({v.name: co for v, co in self._objective._expression.c.items()},
                       self._objective._expression.k, self._objective._direction),
        )

    def _optimize(self):
        E = vsym.cur()
        if E is None or not E.symbolic:
            raise vsym.HarnessError("symlp.optimize outside a symbolic path")
        if self.is_integer:
            return self._optimize_milp(E)
        self._nsolve += 1
        n = len(E.solve_log)
        tag = "s%d" % n
        V = list(self._variables)
        rows = list(self._constraints)
        obj = self._objective._expression
        sense = self._objective._direction
        x = {v: z3.Real("%s.x.%s" % (tag, v.name)) for v in V}
        xs = [x[v] for v in V]

        def lin(e, vals):
            t = rv(0) if _conc_zero(e.k) else lift(e.k)
            for v, co in e.c.items():
                if _conc_zero(co):
                    continue
                t = t + lift(co) * vals[v]
                if _is_sym(co):
                    E.stats["nonlinear_terms"] += 1
            return t

        rowv = {c: lin(c._expression, x) for c in rows}
        feas = []
        # a float infinity stored as a bound (optlang expects None) is read as "no bound" when it points
        # outwards and as an unsatisfiable bound when it points inwards; harnesses flag it separately
        for o in V + rows:
            if vsym.is_inf(o._lb):
                if float(o._lb) > 0:
                    feas.append(z3.BoolVal(False))
        lbs = {o: (None if vsym.is_inf(o._lb) else o._lb) for o in V + rows}
        ubs = {o: (None if vsym.is_inf(o._ub) else o._ub) for o in V + rows}
        for o in V + rows:
            if vsym.is_inf(o._ub) and float(o._ub) < 0:
                feas.append(z3.BoolVal(False))
        for v in V:
            if lbs[v] is not None:
                feas.append(x[v] >= lift(lbs[v]))
            if ubs[v] is not None:
                feas.append(x[v] <= lift(ubs[v]))
        for c in rows:
            if lbs[c] is not None:
                feas.append(rowv[c] >= lift(lbs[c]))
            if ubs[c] is not None:
                feas.append(rowv[c] <= lift(ubs[c]))
        feas_f = z3.And(*feas) if feas else z3.BoolVal(True)
        rec = dict(n=n, site=_site(), x={v.name: x[v] for v in V}, sense=sense)
        E.solve_log.append(rec)

        def arbitrary(status):
            # GLPK leaves unspecified numbers behind; cobrapy reads them (get_solution only warns)
            sol = dict(x={v: E.fresh("%s.junk.%s" % (tag, v.name)) for v in V},
                       d={v: E.fresh("%s.junkd.%s" % (tag, v.name)) for v in V},
                       y={c: E.fresh("%s.junky.%s" % (tag, c.name)) for c in rows},
                       obj=E.fresh("%s.junkobj" % tag))
            self._sol = sol
            rec["status"] = status
            rec["x"] = {v.name: sol["x"][v].t for v in V}
            return status

        if not E.exists_fork(xs, feas_f, name="%s.feasible" % tag):
            if BAND:
                # tolerance band: inputs for which the LP is infeasible by less than BAND are outside every claim
                # (a float solver with feasibility tolerance 1e-7 may call them feasible); keep the infeasible
                # branch to inputs that are infeasible even with every bound relaxed by BAND
                sl = rv(BAND)
                rel = []
                for v in V:
                    if lbs[v] is not None:
                        rel.append(x[v] >= lift(lbs[v]) - sl)
                    if ubs[v] is not None:
                        rel.append(x[v] <= lift(ubs[v]) + sl)
                for c in rows:
                    if lbs[c] is not None:
                        rel.append(rowv[c] >= lift(lbs[c]) - sl)
                    if ubs[c] is not None:
                        rel.append(rowv[c] <= lift(ubs[c]) + sl)
                if len(rel) == len(feas):       # no structurally false bound
                    robust = E.forall_not(xs, z3.And(*rel) if rel else z3.BoolVal(True))
                    E.assume(robust)
            return arbitrary(INFEASIBLE)

        # unbounded: improving direction in the recession cone (depends on the infinite-bound
        # pattern and the matrix only)
        sgn = 1 if sense == "max" else -1
        dd = {v: z3.Real("%s.r.%s" % (tag, v.name)) for v in V}
        cone = []
        symbolic_cone = False
        for v in V:
            if lbs[v] is not None:
                cone.append(dd[v] >= 0)
            if ubs[v] is not None:
                cone.append(dd[v] <= 0)
        for c in rows:
            e = LinExpr(c._expression.c, 0)
            if any(_is_sym(co) for co in e.c.values()):
                symbolic_cone = True
            r = lin(e, dd)
            if lbs[c] is not None:
                cone.append(r >= 0)
            if ubs[c] is not None:
                cone.append(r <= 0)
        if any(_is_sym(co) for co in obj.c.values()):
            symbolic_cone = True
        cone.append(sgn * lin(LinExpr(obj.c, 0), dd) > 0)
        cone_f = z3.And(*cone)
        if symbolic_cone:
            unb = E.exists_fork(list(dd.values()), cone_f, name="%s.unbounded" % tag)
        else:
            s = z3.Solver()
            s.add(cone_f)
            r = s.check()
            if r == z3.unknown:
                raise vsym.Inconclusive("recession cone query unknown")
            unb = (r == z3.sat)
        if unb:
            return arbitrary(UNBOUNDED)

        # optimal: x (already feasible) together with dual certificates y, d
        y = {c: z3.Real("%s.y.%s" % (tag, c.name)) for c in rows}
        d = {v: z3.Real("%s.d.%s" % (tag, v.name)) for v in V}
        kkt = []
        for v in V:
            cj = obj.c.get(v, 0)
            t = rv(0) if _conc_zero(cj) else sgn * lift(cj)
            for c in rows:
                a = c._expression.c.get(v, 0)
                if not _conc_zero(a):
                    t = t - lift(a) * y[c]
            kkt.append(d[v] == t)
            if ubs[v] is not None:
                kkt.append(z3.Implies(d[v] > 0, x[v] == lift(ubs[v])))
            else:
                kkt.append(d[v] <= 0)
            if lbs[v] is not None:
                kkt.append(z3.Implies(d[v] < 0, x[v] == lift(lbs[v])))
            else:
                kkt.append(d[v] >= 0)
        for c in rows:
            if ubs[c] is not None:
                kkt.append(z3.Implies(y[c] > 0, rowv[c] == lift(ubs[c])))
            else:
                kkt.append(y[c] <= 0)
            if lbs[c] is not None:
                kkt.append(z3.Implies(y[c] < 0, rowv[c] == lift(lbs[c])))
            else:
                kkt.append(y[c] >= 0)
        for k in kkt:
            E._add(k)
        E.last_model = None
        objv = lin(obj, x)
        self._sol = dict(x={v: SymReal(x[v]) for v in V},
                         d={v: SymReal(sgn * d[v]) for v in V},
                         y={c: SymReal(sgn * y[c]) for c in rows},
                         obj=SymReal(objv))
        rec["status"] = OPTIMAL
        rec["obj"] = objv
        return OPTIMAL


    # the MILP contract (small numbers of bounded integer variables) ---------------------------------
    def _optimize_milp(self, E):
        """Contract of a MILP solver for problems whose integer variables have small concrete ranges: the
        integer assignments are enumerated *inside the formula* (no forks): the returned point is feasible for
        one assignment, and for every assignment either the LP restricted to it is infeasible (quantifier-free
        condition from qe2) or a KKT-certified optimum of it exists that is not better than the returned value.
        Duals are undefined for integer problems (optlang raises ValueError)."""
        self._nsolve += 1
        n = len(E.solve_log)
        tag = "s%d" % n
        V = list(self._variables)
        VI = [v for v in V if v._type in ("integer", "binary")]
        VC = [v for v in V if v._type not in ("integer", "binary")]
        rows = list(self._constraints)
        obj = self._objective._expression
        sense = self._objective._direction
        sgn = 1 if sense == "max" else -1
        doms = []
        for v in VI:
            lo, hi = v._lb, v._ub
            if v._type == "binary":
                lo = 0 if lo is None else lo
                hi = 1 if hi is None else hi
            if lo is None or hi is None or _is_sym(lo) or _is_sym(hi) or vsym.is_inf(lo) or vsym.is_inf(hi):
                raise NotModelled("integer variable %s without concrete finite bounds" % v.name)
            lo_i, hi_i = int(math.ceil(float(lo) - 1e-9)), int(math.floor(float(hi) + 1e-9))
            doms.append(list(range(lo_i, hi_i + 1)))
        nass = 1
        for dmn in doms:
            nass *= max(1, len(dmn))
        if nass > MILP_MAX_ASSIGNMENTS:
            raise NotModelled("MILP with %d integer assignments (limit %d)" % (nass, MILP_MAX_ASSIGNMENTS))
        assignments = [dict(zip(VI, combo)) for combo in itertools.product(*doms)]
        lbs = {o: (None if vsym.is_inf(o._lb) else o._lb) for o in VC + rows}
        ubs = {o: (None if vsym.is_inf(o._ub) else o._ub) for o in VC + rows}
        for o in VC + rows:
            if (vsym.is_inf(o._lb) and float(o._lb) > 0) or (vsym.is_inf(o._ub) and float(o._ub) < 0):
                raise NotModelled("inward infinite bound in a MILP")

        def lin(e, vals, ints):
            t = rv(0) if _conc_zero(e.k) else lift(e.k)
            for v, co in e.c.items():
                if _conc_zero(co):
                    continue
                if v in ints:
                    if ints[v] != 0:
                        t = t + lift(co) * rv(ints[v])
                else:
                    t = t + lift(co) * vals[v]
                    if _is_sym(co):
                        E.stats["nonlinear_terms"] += 1
            return t

        def feas_of(vals, ints, slack=None):
            out = []
            for v in VC:
                if lbs[v] is not None:
                    out.append(vals[v] >= (lift(lbs[v]) - slack if slack is not None else lift(lbs[v])))
                if ubs[v] is not None:
                    out.append(vals[v] <= (lift(ubs[v]) + slack if slack is not None else lift(ubs[v])))
            acts = {}
            for c in rows:
                r = lin(c._expression, vals, ints)
                acts[c] = r
                if lbs[c] is not None:
                    out.append(r >= (lift(lbs[c]) - slack if slack is not None else lift(lbs[c])))
                if ubs[c] is not None:
                    out.append(r <= (lift(ubs[c]) + slack if slack is not None else lift(ubs[c])))
            return (z3.And(*out) if out else z3.BoolVal(True)), acts

        # returned point: continuous part x, integer part b (reals constrained to one assignment)
        x = {v: z3.Real("%s.x.%s" % (tag, v.name)) for v in VC}
        b = {v: z3.Real("%s.x.%s" % (tag, v.name)) for v in VI}
        sel = []
        for a in assignments:
            f, _ = feas_of(x, a)
            sel.append(z3.And(*([b[v] == rv(a[v]) for v in VI] + [f])))
        feas_star = z3.Or(*sel)
        rec = dict(n=n, site=_site(), x={v.name: (x[v] if v in x else b[v]) for v in V}, sense=sense, milp=True)
        E.solve_log.append(rec)

        def arbitrary(status):
            sol = dict(x={v: E.fresh("%s.junk.%s" % (tag, v.name)) for v in V}, d={}, y={},
                       obj=E.fresh("%s.junkobj" % tag))
            self._sol = sol
            rec["status"] = status
            rec["x"] = {v.name: sol["x"][v].t for v in V}
            return status

        allx = [x[v] for v in VC] + [b[v] for v in VI]
        if not E.exists_fork(allx, feas_star, name="%s.feasible" % tag):
            if BAND:
                rel = []
                for a in assignments:
                    f, _ = feas_of(x, a, slack=rv(BAND))
                    rel.append(f)
                E.assume(E.forall_not([x[v] for v in VC], z3.Or(*rel)))
            return arbitrary(INFEASIBLE)

        # unbounded: integer variables are bounded, so the recession cone lives in the continuous variables
        dd = {v: z3.Real("%s.r.%s" % (tag, v.name)) for v in VC}
        zero_ints = {v: 0 for v in VI}
        cone = []
        symbolic_cone = False
        for v in VC:
            if lbs[v] is not None:
                cone.append(dd[v] >= 0)
            if ubs[v] is not None:
                cone.append(dd[v] <= 0)
        for c in rows:
            e = LinExpr(c._expression.c, 0)
            if any(_is_sym(co) for vv, co in e.c.items() if vv not in zero_ints):
                symbolic_cone = True
            r = lin(e, dd, zero_ints)
            if lbs[c] is not None:
                cone.append(r >= 0)
            if ubs[c] is not None:
                cone.append(r <= 0)
        if any(_is_sym(co) for vv, co in obj.c.items() if vv not in zero_ints):
            symbolic_cone = True
        cone.append(sgn * lin(LinExpr(obj.c, 0), dd, zero_ints) > 0)
        cone_f = z3.And(*cone)
        if symbolic_cone:
            unb = E.exists_fork(list(dd.values()), cone_f, name="%s.unbounded" % tag)
        else:
            s = z3.Solver()
            s.add(cone_f)
            r = s.check()
            if r == z3.unknown:
                raise vsym.Inconclusive("recession cone query unknown")
            unb = (r == z3.sat)
        if unb:
            return arbitrary(UNBOUNDED)

        # value of the returned point: objective with the integer part expanded over the selected assignment
        def obj_at(vals, ints):
            return lin(obj, vals, ints)

        val_star = z3.Real("%s.val" % tag)
        E._add(z3.And(*[z3.Implies(z3.And(*[b[v] == rv(a[v]) for v in VI]), val_star == obj_at(x, a))
                        for a in assignments]))
        # optimality: no assignment admits a better LP optimum
        for k, a in enumerate(assignments):
            xa = {v: z3.Real("%s.a%d.x.%s" % (tag, k, v.name)) for v in VC}
            fa, acts = feas_of(xa, a)
            neg = z3.simplify(E.forall_not([xa[v] for v in VC], fa)) if VC else z3.simplify(z3.Not(fa))
            if z3.is_true(neg):
                continue
            ya = {c: z3.Real("%s.a%d.y.%s" % (tag, k, c.name)) for c in rows}
            da = {v: z3.Real("%s.a%d.d.%s" % (tag, k, v.name)) for v in VC}
            kkt = [fa]
            for v in VC:
                cj = obj.c.get(v, 0)
                t = rv(0) if _conc_zero(cj) else sgn * lift(cj)
                for c in rows:
                    aij = c._expression.c.get(v, 0)
                    if not _conc_zero(aij):
                        t = t - lift(aij) * ya[c]
                kkt.append(da[v] == t)
                if ubs[v] is not None:
                    kkt.append(z3.Implies(da[v] > 0, xa[v] == lift(ubs[v])))
                else:
                    kkt.append(da[v] <= 0)
                if lbs[v] is not None:
                    kkt.append(z3.Implies(da[v] < 0, xa[v] == lift(lbs[v])))
                else:
                    kkt.append(da[v] >= 0)
            for c in rows:
                if ubs[c] is not None:
                    kkt.append(z3.Implies(ya[c] > 0, acts[c] == lift(ubs[c])))
                else:
                    kkt.append(ya[c] <= 0)
                if lbs[c] is not None:
                    kkt.append(z3.Implies(ya[c] < 0, acts[c] == lift(lbs[c])))
                else:
                    kkt.append(ya[c] >= 0)
            kkt.append(sgn * obj_at(xa, a) <= sgn * val_star)
            body = z3.And(*kkt)
            E._add(body if z3.is_false(neg) else z3.Or(neg, body))
        E.last_model = None
        ok, _ = E._check(None)
        if not ok:
            raise vsym.HarnessError("MILP contract unsatisfiable on a feasible, bounded problem")
        sol_x = {v: SymReal(x[v]) for v in VC}
        sol_x.update({v: SymReal(b[v]) for v in VI})
        self._sol = dict(x=sol_x, d={}, y={}, obj=SymReal(val_star))
        rec["status"] = OPTIMAL
        rec["obj"] = val_star
        return OPTIMAL

    # copying ------------------------------------------------------------------------------------
    def _clone_into(self, new):
        self.update()
        vmap = {}
        for v in self._variables:
            nv = Variable(v._name, v._lb, v._ub, v._type)
            vmap[v] = nv
        new._add_variables(list(vmap.values()))
        cmap = {}
        for c in self._constraints:
            nc = Constraint(LinExpr({vmap[v]: co for v, co in c._expression.c.items()}, c._expression.k),
                            lb=c._lb, ub=c._ub, name=c._name, sloppy=True)
            cmap[c] = nc
        new._add_constraints(list(cmap.values()), sloppy=True)
        o = self._objective
        no = Objective(LinExpr({vmap[v]: co for v, co in o._expression.c.items() if v in vmap},
                               o._expression.k), direction=o._direction, name=o._name, sloppy=True)
        new._objective = no
        no._problem = new
        new.configuration = Configuration.clone(self.configuration, problem=new)
        new._status = self._status
        if self._sol is not None:
            new._sol = dict(x={vmap[v]: t for v, t in self._sol["x"].items() if v in vmap},
                            d={vmap[v]: t for v, t in self._sol["d"].items() if v in vmap},
                            y={cmap[c]: t for c, t in self._sol["y"].items() if c in cmap},
                            obj=self._sol["obj"])
        new.name = self.name
        return new

    def __deepcopy__(self, memo):
        return self._clone_into(type(self)())

    def __copy__(self):
        return self.__deepcopy__({})

    @classmethod
    def clone(cls, model, use_json=True, use_lp=False):
        if isinstance(model, Model):
            return model._clone_into(cls())
        raise NotModelled("cloning a foreign interface model into symlp")

    def __getstate__(self):
        self.update()
        return dict(snapshot=self.lp_snapshot(), name=self.name, status=self._status,
                    objname=self._objective._name,
                    tol=(self.configuration.tolerances.feasibility,
                         self.configuration.tolerances.optimality,
                         self.configuration.tolerances.integrality))

    def __setstate__(self, st):
        self.__init__()
        snap = st["snapshot"]
        vs = {}
        for (n, lb, ub, ty) in snap["variables"]:
            vs[n] = Variable(n, lb, ub, ty)
        self._add_variables(list(vs.values()))
        cons = [Constraint(LinExpr({vs[n]: co for n, co in coefs.items()}, k), lb=lb, ub=ub, name=n,
                           sloppy=True) for (n, coefs, k, lb, ub) in snap["constraints"]]
        self._add_constraints(cons, sloppy=True)
        oc, ok, od = snap["objective"]
        o = Objective(LinExpr({vs[n]: co for n, co in oc.items()}, ok), direction=od,
                      name=st["objname"], sloppy=True)
        self._objective = o
        o._problem = self
        self.name = st["name"]
        (self.configuration.tolerances.feasibility, self.configuration.tolerances.optimality,
         self.configuration.tolerances.integrality) = st["tol"]
        # GLPK re-optimises an optimal problem on unpickling; the stub keeps no solution across pickling
        self._status = None

    def to_lp(self):
        return str(self.lp_snapshot())

    def __str__(self):
        return "symlp.Model(%d vars, %d rows)" % (len(self._variables), len(self._constraints))


# --------------------------------------------------------------------------- a second interface (solver switching)
class TwinModel(Model):
    """the same contract stub presented as *another* optlang interface, so that `model.solver = <other interface>` runs
    cobrapy's switching code (Model.solver setter -> interface.Model.clone) on symbolic paths"""

    @property
    def interface(self):
        return TWIN


def _make_twin():
    import types
    tw = types.ModuleType("symlp_twin")
    me = sys.modules[__name__]
    for n in dir(me):
        if not n.startswith("__"):
            setattr(tw, n, getattr(me, n))
    tw.Model = TwinModel
    return tw


TWIN = _make_twin()
