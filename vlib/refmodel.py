"""Executable reference of the documented editing semantics (C02, DESIGN table under C02).

Plain data, written from the docstrings, independent of cobrapy's implementation:
  rxn:  {rid: {"mets": {mid: coef}, "lb": .., "ub": .., "rule": tree | None}}     (ordered)
  mets: [ids]   genes: set(ids)   groups: {gid: set("Type:id")}   objective: {rid: coef}   direction
Coefficients and bounds may be symbolic (SymReal); a coefficient that *may* be zero forks the path exactly
like the real code does (`coef == 0` is a branch), so reference and implementation are compared per case.
Where the documentation is silent the aspect is not part of the reference (see `compare`).
"""
import itertools

from . import gprspec
from .vsym import SymReal, is_inf


class Ref(object):
    def __init__(self):
        self.rxn = {}
        self.mets = []
        self.genes = set()
        self.groups = {}
        self.objective = {}
        self.direction = "max"
        self.valid = True           # False once an operation without reference semantics was applied
        self.shared = set()         # metabolites also used by a detached reaction the user still holds

    @classmethod
    def from_model(cls, m, rules):
        """rules: {rid: tree or None} as the harness built them"""
        r = cls()
        for x in m.reactions:
            r.rxn[x.id] = dict(mets={k.id: v for k, v in x._metabolites.items()}, lb=x.lower_bound, ub=x.upper_bound,
                               rule=rules.get(x.id))
        r.mets = [x.id for x in m.metabolites]
        r.genes = set(x.id for x in m.genes)
        r.groups = {g.id: set("%s:%s" % (type(x).__name__, x.id) for x in g.members) for g in m.groups}
        from cobra.util.solver import linear_reaction_coefficients
        r.objective = {x.id: c for x, c in linear_reaction_coefficients(m).items()}
        r.direction = m.objective_direction
        return r

    # -- objective: assigning a reaction / id / index / dict replaces the coefficients and leaves the direction alone; an
    #    optlang Objective brings its own direction; objective_coefficient edits one coefficient ---------------------------
    def set_objective(self, coefs, direction=None):
        if self.objective is not None:
            self.objective = dict(coefs)
        if direction is not None:
            self.direction = direction

    def set_objective_coefficient(self, rid, c):
        if self.objective is not None:
            self.objective[rid] = c

    def objective_unknown(self):
        self.objective = None

    # -- helpers -------------------------------------------------------------------------------
    def _drop_zero(self, rid):
        mets = self.rxn[rid]["mets"]
        for k in list(mets):
            c = mets[k]
            if bool(c == 0):              # forks when symbolic, like the implementation
                del mets[k]

    def _rule_genes(self, tree):
        return gprspec.leaves(tree) if tree is not None else set()

    def _ensure_genes(self, tree):
        self.genes |= self._rule_genes(tree)

    def _ungroup(self, kind, oid):
        for g in self.groups.values():
            g.discard("%s:%s" % (kind, oid))

    # -- documented effects ------------------------------------------------------------------------
    def set_bounds(self, rid, lb=None, ub=None):
        if lb is not None:
            self.rxn[rid]["lb"] = lb
        if ub is not None:
            self.rxn[rid]["ub"] = ub

    def add_metabolites(self, rid, mid, x, combine, new_met=False):
        """coefficient added (combine) or replaced; a coefficient that becomes 0 is removed; a new metabolite joins"""
        mets = self.rxn[rid]["mets"]
        if mid in mets and combine:
            mets[mid] = mets[mid] + x
        else:
            mets[mid] = x
        if mid not in self.mets:
            self.mets.append(mid)
        self._drop_zero(rid)

    def scale(self, rid, k):
        r = self.rxn[rid]
        if k == 0:
            r["mets"] = {}          # "no zero-coefficient entries remain": scaling by zero leaves an empty reaction
            return
        r["mets"] = {m: c * k for m, c in r["mets"].items()}
        if k < 0:
            r["lb"], r["ub"] = -r["ub"], -r["lb"]

    def combine(self, rid, other_mets, other_rule, sign=1):
        mets = self.rxn[rid]["mets"]
        for mid, c in other_mets.items():
            mets[mid] = mets.get(mid, 0) + sign * c
            if mid not in self.mets:
                self.mets.append(mid)
        self._drop_zero(rid)
        if sign > 0:
            mine = self.rxn[rid]["rule"]
            if mine is not None and other_rule is not None:
                self.rxn[rid]["rule"] = ("and", mine, other_rule)
            elif mine is None and other_rule is not None:
                self.rxn[rid]["rule"] = other_rule
            self._ensure_genes(self.rxn[rid]["rule"])

    def set_rule(self, rid, tree):
        self.rxn[rid]["rule"] = tree
        self._ensure_genes(tree)          # genes no longer in the rule stay in the model

    def add_reaction(self, rid, mets, lb, ub, rule=None):
        if rid in self.rxn:
            return                          # ignored
        self.rxn[rid] = dict(mets=dict(mets), lb=lb, ub=ub, rule=rule)
        for mid in mets:
            if mid not in self.mets:
                self.mets.append(mid)
        self._ensure_genes(rule)

    def remove_reaction(self, rid, orphans=False):
        if rid not in self.rxn:
            return
        r = self.rxn.pop(rid)
        self._ungroup("Reaction", rid)
        if self.objective is not None:
            self.objective.pop(rid, None)
        if orphans:
            for mid in r["mets"]:
                if not any(mid in x["mets"] for x in self.rxn.values()):
                    if mid in self.shared:
                        # still referenced by a reaction outside the model: whether that makes it an orphan is not
                        # documented - nothing asserted from here on
                        self.valid = False
                        return
                    if mid in self.mets:
                        self.mets.remove(mid)
                        self._ungroup("Metabolite", mid)
            for g in self._rule_genes(r["rule"]):
                if not any(g in self._rule_genes(x["rule"]) for x in self.rxn.values()):
                    self.genes.discard(g)
                    self._ungroup("Gene", g)        # "no dangling entries": an orphaned gene leaves its groups, like a metabolite

    def remove_metabolite(self, mid, destructive=False):
        if mid not in self.mets:
            return
        self._ungroup("Metabolite", mid)
        if destructive:
            for rid in [r for r, x in self.rxn.items() if mid in x["mets"]]:
                self.remove_reaction(rid)
        else:
            for x in self.rxn.values():
                x["mets"].pop(mid, None)
        self.mets.remove(mid)

    def remove_gene(self, gid, remove_reactions):
        self._ungroup("Gene", gid)
        for rid in list(self.rxn):
            t = self.rxn[rid]["rule"]
            if t is None or gid not in gprspec.leaves(t):
                continue
            sub = gprspec.substitute_false(t, {gid})
            if sub is None and remove_reactions:
                self.remove_reaction(rid)
            else:
                self.rxn[rid]["rule"] = sub
        self.genes.discard(gid)

    def rename_gene(self, old, new):
        def ren(t):
            if t is None:
                return None
            if isinstance(t, str):
                return new if t == old else t
            return (t[0],) + tuple(ren(c) for c in t[1:])
        for x in self.rxn.values():
            x["rule"] = ren(x["rule"])
        self.genes.discard(old)
        self.genes.add(new)
        for g in self.groups.values():
            if "Gene:" + old in g:
                g.discard("Gene:" + old)
                g.add("Gene:" + new)

    def rename_reaction(self, old, new):
        self.rxn = {(new if k == old else k): v for k, v in self.rxn.items()}
        if self.objective is not None and old in self.objective:
            self.objective[new] = self.objective.pop(old)
        for g in self.groups.values():
            if "Reaction:" + old in g:
                g.discard("Reaction:" + old)
                g.add("Reaction:" + new)

    def rename_metabolite(self, old, new):
        self.mets = [new if k == old else k for k in self.mets]
        for x in self.rxn.values():
            if old in x["mets"]:
                x["mets"][new] = x["mets"].pop(old)
        for g in self.groups.values():
            if "Metabolite:" + old in g:
                g.discard("Metabolite:" + old)
                g.add("Metabolite:" + new)


def compare(E, ref, m, label, **detail):
    """observable content of the model == reference (for the aspects the documentation fixes)"""
    if not ref.valid:
        return
    bad = []
    if [r.id for r in m.reactions] != list(ref.rxn):
        if sorted(r.id for r in m.reactions) != sorted(ref.rxn):
            bad.append("reactions %s != reference %s" % ([r.id for r in m.reactions], list(ref.rxn)))
    if sorted(x.id for x in m.metabolites) != sorted(ref.mets):
        bad.append("metabolites %s != reference %s" % (sorted(x.id for x in m.metabolites), sorted(ref.mets)))
    if set(x.id for x in m.genes) != ref.genes:
        bad.append("genes %s != reference %s" % (sorted(x.id for x in m.genes), sorted(ref.genes)))
    groups = {g.id: set("%s:%s" % (type(x).__name__, x.id) for x in g.members) for g in m.groups}
    if groups != ref.groups:
        bad.append("groups %s != reference %s" % (groups, ref.groups))
    conds = []
    for r in m.reactions:
        if r.id not in ref.rxn:
            continue
        want = ref.rxn[r.id]
        got = {k.id: v for k, v in r._metabolites.items()}
        if set(got) != set(want["mets"]):
            bad.append("%s: metabolites %s != reference %s" % (r.id, sorted(got), sorted(want["mets"])))
        else:
            for k in got:
                conds.append(E.eq(got[k], want["mets"][k]))
        for a, b in ((r.lower_bound, want["lb"]), (r.upper_bound, want["ub"])):
            conds.append(E.eq(a, b))
        t = want["rule"]
        rg = set(g.id for g in r.genes)
        if rg != (gprspec.leaves(t) if t is not None else set()):
            bad.append("%s: genes %s != genes of the reference rule %s" % (r.id, sorted(rg), t))
        else:
            gl = sorted(rg)
            for n in range(len(gl) + 1):
                for K in itertools.combinations(gl, n):
                    if bool(r.gpr.eval(set(K))) != (True if t is None else gprspec.truth(t, set(K))):
                        bad.append("%s: rule %r is not equivalent to the reference %s (absent %s)" % (r.id, r.gene_reaction_rule, t, K))
                        break
    if ref.objective is not None:
        from cobra.util.solver import linear_reaction_coefficients
        try:
            got = {r.id: c for r, c in linear_reaction_coefficients(m).items()}
        except Exception:
            got = dict(ref.objective)      # solver wedged / reaction half-added by a listed finding (reported by C01): not read here
        for rid in sorted(set(got) | set(ref.objective)):
            if rid in ref.rxn:
                conds.append(E.eq(got.get(rid, 0), ref.objective.get(rid, 0)))
        if m.objective_direction != ref.direction:
            bad.append("objective direction %r != reference %r" % (m.objective_direction, ref.direction))
    E.prove(not bad, label, problems=bad[:3], **detail)
    E.prove(E.all_of(conds), label + ":values", **detail)
