"""Concrete network templates (DESIGN.md appendix D) built through cobra's public API."""
from cobra import Metabolite, Model, Reaction

# id -> (metabolites {id: compartment}, reactions [(id, {met: coef}, (lb, ub), rule)], objectives [ {rid: coef} ])
T = {}

T["T1"] = dict(
    mets={"A": "c", "B": "c"},
    rxns=[("EX_A", {"A": -1}, (-10, 10), ""), ("R1", {"A": -1, "B": 1}, (0, 10), ""),
          ("DM_B", {"B": -1}, (0, 10), "")],
    objectives=[{"DM_B": 1}])

T["T2"] = dict(
    mets={"A": "c", "B": "c"},
    rxns=[("EX_A", {"A": -1}, (-10, 10), ""), ("R1", {"A": -1, "B": 1}, (0, 10), ""),
          ("R2", {"A": -1, "B": 1}, (0, 10), ""), ("DM_B", {"B": -1}, (0, 10), "")],
    objectives=[{"DM_B": 1}, {"DM_B": 1, "R1": 2}])

T["T3"] = dict(
    mets={"A": "c", "B": "c"},
    rxns=[("EX_A", {"A": -1}, (-10, 0), ""), ("R1", {"A": -1, "B": 1}, (0, 10), ""),
          ("R2", {"B": -1, "A": 1}, (0, 10), ""), ("R3", {"A": -1, "B": 1}, (0, 10), ""),
          ("DM_B", {"B": -1}, (0, 10), "")],
    objectives=[{"DM_B": 1}])

T["T4"] = dict(
    mets={"A": "c", "B": "c", "C": "c", "D": "c"},
    rxns=[("EX_A", {"A": -1}, (-10, 0), ""), ("R1", {"A": -1, "B": 1}, (0, 10), ""),
          ("R2", {"B": -1, "C": 1}, (0, 10), ""), ("R3", {"C": -1, "A": 1}, (0, 10), ""),
          ("R4", {"C": -1, "D": 1}, (0, 10), ""), ("DM_D", {"D": -1}, (0, 10), "")],
    objectives=[{"DM_D": 1}])

T["T5"] = dict(
    mets={"A_e": "e", "B_e": "e", "A": "c", "B": "c", "C": "c"},
    rxns=[("EX_A_e", {"A_e": -1}, (-10, 10), ""), ("EX_B_e", {"B_e": 1}, (-10, 10), ""),
          ("TA", {"A_e": -1, "A": 1}, (-10, 10), ""), ("TB", {"B_e": -1, "B": 1}, (-10, 10), ""),
          ("R1", {"A": -1, "B": -1, "C": 1}, (0, 10), ""), ("DM_C", {"C": -1}, (0, 10), ""),
          ("SK_A", {"A": -1}, (-10, 10), "")],
    objectives=[{"DM_C": 1}])

T["T6"] = dict(
    mets={"A": "c", "B": "c", "D": "c", "E": "c", "F": "c"},
    rxns=[("EX_A", {"A": -1}, (-10, 10), ""), ("R1", {"A": -1, "B": 1}, (0, 10), ""),
          ("R2", {"B": -1, "A": 1}, (-10, 10), ""), ("DM_B", {"B": -1}, (0, 10), ""),
          ("DEAD", {"B": -1, "D": 1}, (-10, 10), ""), ("X1", {"E": -1, "F": 1}, (0, 10), ""),
          ("X2", {"F": -1, "E": 1}, (0, 10), "")],
    objectives=[{"DM_B": 1}])

T["T7"] = dict(
    mets={"A": "c", "B": "c"},
    rxns=[("EX_A", {"A": -2}, (-10, 10), ""), ("R1", {"A": -2, "B": 1}, (0, 10), ""),
          ("R2", {"A": -1, "B": 3}, (0, 10), ""), ("DM_B", {"B": -2}, (0, 10), "")],
    objectives=[{"DM_B": 2}, {"DM_B": 1, "R2": -1}])

T["T8"] = dict(
    mets={"A": "c", "B": "c"},
    rxns=[("EX_A", {"A": -1}, (-10, 10), "(g1 and g2) or g4"), ("R1", {"A": -1, "B": 1}, (0, 10), "g1 and g2"),
          ("R2", {"A": -1, "B": 1}, (0, 10), "g1 or g3"), ("DM_B", {"B": -1}, (0, 10), "")],
    objectives=[{"DM_B": 1}])


T["T9"] = dict(   # a forced drain competing with the objective (knocking it out raises the optimum)
    mets={"A_e": "e", "A": "c", "B": "c"},
    rxns=[("EX_A", {"A_e": -1}, (-10, 0), ""), ("T", {"A_e": -1, "A": 1}, (0, 10), ""),
          ("R1", {"A": -1, "B": 1}, (0, 10), "g1"), ("DRAIN", {"A": -1}, (2, 10), "g2"),
          ("DM_B", {"B": -1}, (0, 10), "")],
    objectives=[{"DM_B": 1}])


T["T10"] = dict(   # uptake smaller than the capacity of a cycle whose partner runs backwards (R1 with -R3)
    mets={"A": "c", "B": "c"},
    rxns=[("EX_A", {"A": -1}, (-5, 0), ""), ("R1", {"A": -1, "B": 1}, (0, 10), ""),
          ("R3", {"A": -1, "B": 1}, (-10, 10), ""), ("DM_B", {"B": -1}, (0, 10), "")],
    objectives=[{"DM_B": 1}])


T["T11"] = dict(   # a reversible objective reaction that has to run backwards once the source is knocked out
    mets={"A": "c", "B": "c"},
    rxns=[("SRC", {"A": 1}, (0, 10), "g1"), ("R1", {"A": -1, "B": 1}, (0, 10), ""),
          ("DRAIN", {"B": -1}, (2, 10), "g2"), ("DM_B", {"B": -1}, (-10, 10), "")],
    objectives=[{"DM_B": 1}])


T["T12"] = dict(   # reactions written backwards: lower bounds larger in magnitude than every upper bound; cycle R2/R3 and R1/R2
    mets={"A": "c", "B": "c"},
    rxns=[("SRC", {"A": -1}, (-20, 0), ""), ("R1", {"B": -1, "A": 1}, (-20, 0), ""),
          ("R2", {"A": -1, "B": 1}, (0, 10), ""), ("R3", {"B": -1, "A": 1}, (0, 10), ""),
          ("DM_B", {"B": 1}, (-20, 0), "")],
    objectives=[{"DM_B": -1}])


def build(tid, coef=None):
    """build the template through the public API (add_metabolites on detached reactions,
    add_reactions).  coef: optional {(rid, mid): value} overriding stoichiometry."""
    t = T[tid]
    m = Model(tid)
    mets = {k: Metabolite(k, compartment=c, name=k) for k, c in t["mets"].items()}
    rs = []
    for (rid, st, (lb, ub), rule) in t["rxns"]:
        r = Reaction(rid, name=rid, lower_bound=lb, upper_bound=ub)
        r.add_metabolites({mets[k]: (coef or {}).get((rid, k), v) for k, v in st.items()})
        if rule:
            r.gene_reaction_rule = rule
        rs.append(r)
    m.add_reactions(rs)
    return m


DELTA = 0.01     # tolerance discipline of every LP harness (DESIGN 4.0): a finite symbolic bound is 0 or |b| >= DELTA


def symbolic_bounds(E, m, which=None, lo=-10, hi=10, inf=False, delta=DELTA, sign=None):
    """give the listed reactions (default: all) symbolic bounds lb<=ub in [lo,hi];
    delta: every finite bound is 0 or at least delta in magnitude (tolerance discipline, 4.0)"""
    out = {}
    for r in m.reactions:
        if which is not None and r.id not in which:
            continue
        lb = E.bound("lb_" + r.id, lo, hi, inf=("-" if inf is True or inf == "lb" else False))
        ub = E.bound("ub_" + r.id, lo, hi, inf=("+" if inf is True or inf == "ub" else False))
        for b in (lb, ub):
            if delta is not None and not isinstance(b, float):
                E.assume(E.any_of([E.eq(b, 0), E.ge(b, delta), E.le(b, -delta)]))
            elif delta is not None and isinstance(b, float) and abs(b) != float("inf") and E.symbolic is False:
                pass
        E.assume(E.le(lb, ub))
        if sign == "spans0":
            E.assume(E.all_of([E.le(lb, 0), E.ge(ub, 0)]))
        r.bounds = (lb, ub)
        out[r.id] = (lb, ub)
    return out
