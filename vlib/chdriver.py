"""CrossHair driver (DESIGN 2.4): one process per condition, verdict mapping, counterexample replay with plain
Python on the real module."""
import ast
import importlib.util
import os
import re
import subprocess
import time

ROOT = os.path.dirname(os.path.dirname(os.path.abspath(__file__)))


def conditions(fname):
    src = open(os.path.join(ROOT, "crosshair", fname)).read().splitlines()
    out = []
    for i, l in enumerate(src):
        m = re.match(r"def (_\w+)\((.*?)\)", l)
        if m and '"""' in "".join(src[i + 1:i + 3]) and "pre:" in "".join(src[i + 1:i + 5]):
            out.append((m.group(1), i + 2))
    return out


def run(fname, budget):
    procs = []
    env = dict(os.environ)
    src = os.environ.get("VERIF_REPO_SRC")
    if src:
        env["PYTHONPATH"] = src + os.pathsep + env.get("PYTHONPATH", "")
    for name, line in conditions(fname):
        cmd = [os.path.join(ROOT, ".venv", "bin", "crosshair"), "check", "--report_all", "--per_condition_timeout", str(budget),
               "%s:%d" % (fname, line)]
        procs.append((name, subprocess.Popen(cmd, cwd=os.path.join(ROOT, "crosshair"), stdout=subprocess.PIPE,
                                             stderr=subprocess.STDOUT, text=True, env=env), time.time()))
    res = []
    for name, p, t0 in procs:
        try:
            out, _ = p.communicate(timeout=budget * 3 + 60)
        except subprocess.TimeoutExpired:
            p.kill()
            out = "timeout"
        verdict, cex = "inconclusive", None
        if "Confirmed over all paths" in out:
            verdict = "confirmed-over-all-paths"
        elif "Not confirmed" in out:
            verdict = "no-counterexample-within-budget"
        elif "Unable to meet precondition" in out:
            verdict = "unable-to-meet-precondition"
        m = re.search(r"error: .*? when calling (\w+)\((.*?)\)(?: \(which|$)", out, re.M)
        if m:
            verdict, cex = "counterexample", m.group(2)
        res.append(dict(condition=name, verdict=verdict, counterexample=cex, wall_s=round(time.time() - t0, 1),
                        output=out.strip()[-300:]))
    return res


def replay(fname, cond, cex):
    """call the contract function on the counterexample with plain Python; True = post-condition really violated"""
    spec = importlib.util.spec_from_file_location("ch_" + fname[:-3], os.path.join(ROOT, "crosshair", fname))
    mod = importlib.util.module_from_spec(spec)
    spec.loader.exec_module(mod)
    try:
        call = ast.parse("f(%s)" % cex, mode="eval").body
        args = [ast.literal_eval(a) for a in call.args]
        kwargs = {k.arg: ast.literal_eval(k.value) for k in call.keywords}
    except Exception:
        return None, None
    try:
        out = getattr(mod, cond)(*args, **kwargs)
    except Exception as e:
        return (args, kwargs), "raised %s" % type(e).__name__
    return (args, kwargs), (out is False)
