"""Check driver: explore harnesses, confirm counterexamples by concrete replay on the
real build, validate the stub on witnesses, match known findings, write evidence.

Exit codes (DESIGN.md 2.6): 0 ok / 1 confirmed unlisted violation / 2 inconclusive or harness error.
"""
import hashlib
import json
import os
import sys
import time
import traceback

from . import vsym

ROOT = os.path.dirname(os.path.dirname(os.path.abspath(__file__)))
# VERIF_SCRATCH redirects evidence and replays (used by tools/seed_regress.sh so that runs against a mutated
# scratch copy of the repository never overwrite the registered evidence)
_SCR = os.environ.get("VERIF_SCRATCH")
EVID = os.path.join(_SCR or ROOT, "evidence")
REPLAYS = os.path.join(_SCR or ROOT, "replays")
KNOWN = os.path.join(ROOT, "known_findings.json")


class H(object):
    """one harness: a function h(E) plus per-tier budgets"""

    def __init__(self, name, fn, quick=None, thorough=None, solvers=("glpk",), tol=1e-6,
                 witness_every=None, bounds="", confirm=8, replay_ok=None, tiers=("quick", "thorough")):
        self.tiers = tiers
        self.name = name
        self.fn = fn
        self.quick = dict(max_paths=4000, time_budget=60)
        self.quick.update(quick or {})
        self.thorough = dict(max_paths=200000, time_budget=600)
        self.thorough.update(thorough or {})
        self.solvers = solvers
        self.tol = tol
        self.witness_every = witness_every
        self.bounds = bounds
        self.confirm = confirm


def load_known():
    try:
        with open(KNOWN) as f:
            return json.load(f).get("findings", [])
    except FileNotFoundError:
        return []


def _match_val(want, have):
    if isinstance(want, dict):
        if "contains" in want:
            w = want["contains"]
            if isinstance(have, str):
                return w in have
            if isinstance(have, (list, tuple)):
                return any(_match_val(w, h) or (isinstance(h, str) and isinstance(w, str) and w in h)
                           for h in have)
            return False
        if "any_of" in want:
            return any(_match_val(w, have) for w in want["any_of"])
        if "every_path" in want:
            # every entry of a structural diff ([path, a, b]) concerns one of the listed path fragments
            return bool(have) and all(any(frag in str(h[0]) for frag in want["every_path"]) for h in have)
        if "max" in want:
            return isinstance(have, (int, float)) and have <= want["max"]
        if "subseq" in want:
            it = iter(have or [])
            return all(any(_match_val(w, h) for h in it) for w in want["subseq"])
        return False
    if isinstance(want, str) and isinstance(have, str) and want.startswith("~"):
        return want[1:] in have
    return want == have


def match_known(known, pid, harness, failure):
    for k in known:
        if k.get("status", "open") != "open":
            continue          # fixed entries suppress nothing
        if k["property"] != pid:
            continue
        if "harness" in k and k["harness"] != harness:
            continue
        lab = failure["label"].split(":")[0]
        if "label" in k and k["label"] != lab and k["label"] != failure["label"]:
            continue
        det = failure.get("detail", {})
        if all(_match_val(w, det.get(key)) for key, w in k.get("where", {}).items()):
            return k
    return None


def _sig(f):
    """signature used to de-duplicate failures: label + harness-supplied detail keys"""
    det = f.get("detail", {})
    keys = {k: det[k] for k in sorted(det) if k in ("sig", "op", "exc", "where", "what")}
    if "problems" in det and det["problems"]:
        import re as _re
        keys["problem"] = _re.sub(r"[A-Za-z]*[0-9_][A-Za-z0-9_]*", "#", str(det["problems"][0]))[:60]
    return f["label"].split(":")[0] + "|" + json.dumps(keys, sort_keys=True, default=str)


def confirm(h, failure, solver="glpk"):
    """replay a counterexample concretely; returns (reproduced, concrete path)"""
    from . import env
    cp = vsym.run_concrete(lambda E: (env.for_path(E, solver), h.fn(E))[1], failure["inputs"], tol=h.tol)
    want = failure["label"].split(":")[0]
    for cf in cp.failures:
        if cf["label"].split(":")[0] == want:
            if want == "unexpected-exception":
                if cf["detail"].get("exc") != failure["detail"].get("exc"):
                    continue
            return True, cp, cf
    return False, cp, None


def write_replay(pid, hname, failure, observed):
    os.makedirs(REPLAYS, exist_ok=True)
    body = dict(property=pid, harness=hname, label=failure["label"], inputs=failure["inputs"],
                trace=vsym.jsonable(failure.get("trace")), detail=failure.get("detail"),
                observed=observed)
    s = json.dumps(body, sort_keys=True, default=str)
    path = os.path.join(REPLAYS, "%s-%s.json" % (pid, hashlib.sha1(s.encode()).hexdigest()[:10]))
    with open(path, "w") as f:
        f.write(json.dumps(body, indent=1, default=str))
    return path


def run_check(pid, tier, harnesses, level="model_checking", assumptions=(), explanation="",
              seed=0, only=None, extra_evidence=None):
    t0 = time.time()
    known = load_known()
    workers = int(os.environ.get("VERIF_WORKERS", "0")) or min(16, os.cpu_count() or 1)
    ev = dict(property_id=pid, tier=tier, seed=seed, level=level, coverage={}, assumptions=list(assumptions),
              wall_s=0.0, violations=0)
    cov = dict(states=0, transitions=0, traces_validated_against_impl=0, samples=[], obligations=0,
               discharged=0, harnesses={}, queries=dict(branch=0, prove=0, forall=0), solver_s=0.0,
               nonlinear_terms=0, exhaustive=True, pending_prefixes=0, inconclusive=0,
               functions_encoded=[], known_findings=[], explanation=explanation,
               evaluations=0, distinct_nontrivial=0,
               rule="one evaluation = one explored path of the real code (a class of inputs closed under "
                    "the path condition); distinct = distinct decision sequences; non-trivial = path on "
                    "which at least one obligation was decided by a solver query")
    funcs = set()
    violations = []
    knowns = []
    unconfirmed = []
    mismatches = []
    errors = []
    for h in harnesses:
        if only and h.name not in only:
            continue
        if not only and tier not in h.tiers:
            continue
        cfg = h.quick if tier == "quick" else h.thorough
        wevery = h.witness_every if h.witness_every is not None else (25 if tier == "quick" else 10)
        try:
            res = vsym.explore(h.fn, name=h.name, max_paths=cfg["max_paths"], time_budget=cfg["time_budget"],
                               workers=workers, seed=seed,
                               opts=dict(witness_every=wevery, timeout_ms=cfg.get("timeout_ms", 30000)))
        except Exception:
            errors.append(dict(harness=h.name, tb=traceback.format_exc()[-2000:]))
            continue
        hc = dict(paths=res.paths, completed=res.completed, aborted=res.aborted, exhaustive=res.exhaustive,
                  pending_prefixes=res.pending, wall_s=round(res.wall_s, 2), bounds=h.bounds,
                  obligations={k: dict(discharged=v[0], failed=v[1], trivial=v[2]) for k, v in res.obl.items()},
                  queries=dict(branch=res.stats["branch_q"], prove=res.stats["prove_q"],
                               forall=res.stats["forall_q"]),
                  solver_s=round(res.stats["solver_s"], 2), inconclusive=len(res.inconclusive),
                  not_modelled_paths=res.not_modelled, top_choices=res.top_choices)
        xc = {k[7:]: (round(v, 2) if isinstance(v, float) else v) for k, v in res.stats.items() if k.startswith("xcheck_")}
        if xc:
            hc["solver_cross_check"] = xc
            tot = cov.setdefault("solver_cross_check", dict(
                what="every %d-th deciding unsat verdict of z3 %s (discharged obligation, pruned branch side, exhausted integer split) re-decided from SMT-LIB2 text by /usr/bin/z3 "
                     "4.8.12 and cvc5 1.0.3 (%d s each); sat = disagreement = exit 2; unknown/error are not believed"
                     % (vsym.XCHECK, vsym.z3.get_version_string(), vsym.XCHECK_S)))
            for k, v in xc.items():
                tot[k] = round(tot.get(k, 0) + v, 2)
        cov["harnesses"][h.name] = hc
        cov["states"] += res.paths
        cov["transitions"] += res.stats["decisions"]
        cov["evaluations"] += res.paths
        nontriv = sum(1 for _ in range(0))
        cov["queries"]["branch"] += res.stats["branch_q"]
        cov["queries"]["prove"] += res.stats["prove_q"]
        cov["queries"]["forall"] += res.stats["forall_q"]
        cov["solver_s"] += res.stats["solver_s"]
        cov["nonlinear_terms"] += res.stats["nonlinear_terms"]
        # obligations decided on this run: by a solver query (unsat of the negation) or, where every
        # operand was concrete on the path, by evaluation ("trivial")
        cov["obligations"] += sum(v[0] + v[1] + v[2] for v in res.obl.values())
        cov["discharged"] += sum(v[0] + v[2] for v in res.obl.values())
        cov["discharged_by_solver_query"] = cov.get("discharged_by_solver_query", 0) + sum(v[0] for v in res.obl.values())
        cov["discharged_by_evaluation_on_path"] = cov.get("discharged_by_evaluation_on_path", 0) + \
            sum(v[2] for v in res.obl.values())
        cov["inconclusive"] += len(res.inconclusive)
        cov["solver_timeouts"] = cov.get("solver_timeouts", 0) + sum(
            1 for i in res.inconclusive if any(k in str(i.get("why", "")) for k in ("canceled", "timeout", "time limit")))
        if not res.exhaustive:
            cov["exhaustive"] = False
            cov["pending_prefixes"] += res.pending
        cov["distinct_nontrivial"] += res.completed
        funcs |= res.functions
        for s in res.samples[:2]:
            s = dict(s)
            s["harness"] = h.name
            cov["samples"].append(s)
        if res.inconclusive:
            hc["inconclusive_samples"] = res.inconclusive[:3]
        for e in res.errors:
            if e.get("kind") == "not_modelled":
                continue
            errors.append(dict(harness=h.name, **e))
            if e.get("kind") == "Concretized" and e.get("witness") and len(res.witnesses) < 400:
                res.witnesses.append(e["witness"])      # decided on the witness only (see vsym.run_one)
        # ---- confirm failures on the real build
        groups = {}
        for f in res.failures:
            # failures that match a listed finding and those that do not are confirmed separately, so that which
            # instance of a signature happens to come first can never decide between KNOWN-FINDING and VIOLATION
            k0 = match_known(known, pid, h.name, f)
            groups.setdefault(_sig(f) + ("|known:" + k0["what"][:40] if k0 else "|new"), []).append(f)
        for sig, fs in groups.items():
            done = False
            tried = 0
            last = None
            for f in fs[: h.confirm]:
                tried += 1
                try:
                    ok, cp, cf = confirm(h, f, h.solvers[0])
                except (Exception, vsym.HarnessError):
                    errors.append(dict(harness=h.name, kind="replay-crash", tb=traceback.format_exc()[-1500:]))
                    continue
                last = cp
                if ok:
                    f2 = dict(f)
                    f2["detail"] = dict(f.get("detail") or {})
                    f2["detail"].update({k: v for k, v in (cf.get("detail") or {}).items()
                                         if k not in f2["detail"]})
                    k = match_known(known, pid, h.name, f2)
                    path = write_replay(pid, h.name, f2, dict(concrete_failures=cp.failures[:3],
                                                              exception=cp.exception))
                    rec = dict(harness=h.name, label=f["label"], sig=sig, replay=path,
                               count=res.fail_count.get(f["label"], 0), detail=f2["detail"],
                               inputs=f["inputs"])
                    if k is not None:
                        rec["known"] = k["what"]
                        knowns.append(rec)
                    else:
                        violations.append(rec)
                    done = True
                    break
            if not done:
                unconfirmed.append(dict(harness=h.name, label=fs[0]["label"], sig=sig, tried=tried,
                                        inputs=fs[0]["inputs"], detail=fs[0].get("detail"),
                                        concrete=(last.failures[:2] if last is not None else None),
                                        concrete_exc=(last.exception if last is not None else None)))
        # ---- witness replay: validate stub/shims on explored paths
        from . import env
        nval = 0
        cap = cfg.get("witnesses", 24 if tier == "quick" else 100)
        ws = res.witnesses
        if len(ws) > cap:
            step = len(ws) // cap
            ws = ws[::step][:cap]
        for w in ws:
            for solver in h.solvers:
                try:
                    cp = vsym.run_concrete(lambda E: (env.for_path(E, solver), h.fn(E))[1], w, tol=h.tol)
                except (Exception, vsym.HarnessError):
                    errors.append(dict(harness=h.name, kind="witness-crash", tb=traceback.format_exc()[-1500:]))
                    continue
                nval += 1
                if cp.failures:
                    sym_labels = set(l.split(":")[0] for l in res.obl)
                    for cf in cp.failures[:4]:
                        base = cf["label"].split(":")[0]
                        k = match_known(known, pid, h.name, cf)
                        if base not in sym_labels:
                            # an obligation that exists only on concrete replays (e.g. one that depends on which
                            # optimal solution the real solver returns): the failing instance is already a run of the
                            # real build on inputs the solver produced
                            rec = dict(harness=h.name, label=cf["label"], sig=_sig(cf), count=1, detail=cf.get("detail"),
                                       inputs=w)
                            if k is not None:
                                rec["known"] = k["what"]
                                knowns.append(rec)
                            elif not any(v["sig"] == rec["sig"] for v in violations):
                                rec["replay"] = write_replay(pid, h.name, dict(cf, inputs=w), dict(concrete_failures=[cf]))
                                violations.append(rec)
                        elif k is not None:
                            knowns.append(dict(harness=h.name, label=cf["label"], known=k["what"]))
                        elif not any(v["label"].split(":")[0] == base for v in violations + knowns):
                            # a concrete failure on a path where the symbolic run discharged the same obligation: the LP
                            # contract does not determine what the real solver did here (e.g. which optimal vertex it
                            # returned).  The failing instance is a run of the unmodified build on real GLPK, decided by
                            # the same oracle as any confirmed counterexample - it is reported as a violation if it
                            # reproduces, and counted as a stub/solver mismatch in the evidence either way.
                            mismatches.append(dict(harness=h.name, solver=solver, inputs=w, failure=cf))
                            try:
                                again = vsym.run_concrete(lambda E: (env.for_path(E, solver), h.fn(E))[1], w, tol=h.tol)
                            except (Exception, vsym.HarnessError):
                                again = None
                            if again is not None and any(x["label"].split(":")[0] == base for x in again.failures):
                                rec = dict(harness=h.name, label=cf["label"], sig=_sig(cf), count=1, detail=cf.get("detail"),
                                           inputs=w, from_witness_replay=True)
                                rec["replay"] = write_replay(pid, h.name, dict(cf, inputs=w), dict(concrete_failures=[cf]))
                                violations.append(rec)
                                mismatches.pop()
                                cov["witness_failures_promoted"] = cov.get("witness_failures_promoted", 0) + 1
        hc["witness_replays"] = nval
        cov["traces_validated_against_impl"] += nval
    cov["functions_encoded"] = sorted(funcs)
    cov["solver_s"] = round(cov["solver_s"], 2)
    if extra_evidence:
        cov.update(extra_evidence)
    # ---- verdict
    seen = set()
    for r in knowns:
        key = r["known"]
        if key in seen:
            continue
        seen.add(key)
        print("KNOWN-FINDING: property=%s %s" % (pid, r["known"]))
    cov["known_findings"] = sorted(seen)
    code = 0
    if violations:
        code = 1
        for v in violations:
            print("VIOLATION property=%s replay=%s" % (pid, v["replay"]))
            print("  harness=%s obligation=%s detail=%s inputs=%s" % (
                v["harness"], v["label"], json.dumps(v["detail"], default=str)[:400],
                json.dumps(v["inputs"], default=str)[:400]))
    # a path on which the solver hit its time limit is not explored: it is counted (evidence: inconclusive, solver_timeouts,
    # exhaustive=false) and, like any path the budget did not reach, is outside what this run claims.  Only when such paths are
    # more than a handful (machine overloaded, or an encoding gone wrong) is the whole run inconclusive.  Any other `unknown`
    # (no time limit involved) always is.
    timeouts = cov.get("solver_timeouts", 0)
    hard_inconclusive = cov["inconclusive"] - timeouts
    tolerated = max(3, cov["states"] // 500)
    if timeouts:
        cov["exhaustive"] = False
        cov["pending_prefixes"] = cov.get("pending_prefixes", 0) + timeouts
    if code == 0 and (unconfirmed or mismatches or errors or hard_inconclusive or timeouts > tolerated):
        code = 2
    for u in unconfirmed[:4]:
        print("UNCONFIRMED (exit 2) %s/%s: %s inputs=%s concrete=%s" % (
            u["harness"], u["label"], json.dumps(u["detail"], default=str)[:300],
            json.dumps(u["inputs"], default=str)[:300], json.dumps(u["concrete"], default=str)[:300]))
    for m in mismatches[:4]:
        print("WITNESS-MISMATCH (exit 2) %s: %s" % (m["harness"], json.dumps(m["failure"], default=str)[:500]))
    for e in errors[:3]:
        print("HARNESS-ERROR (exit 2) %s" % json.dumps(e, default=str)[:1200])
    if len(errors) > 3:
        print("... %d more harness errors (see evidence)" % (len(errors) - 3))
    if cov["inconclusive"]:
        if hard_inconclusive or timeouts > tolerated:
            print("INCONCLUSIVE: %d solver-unknown paths (%d of them time limits)" % (cov["inconclusive"], timeouts))
        else:
            print("UNDECIDED-PATHS: %d path(s) hit the solver's time limit and are not counted as explored (exhaustive=false)" % timeouts)
    ev["violations"] = len(violations)
    cov["unconfirmed"] = len(unconfirmed)
    cov["witness_mismatches"] = len(mismatches)
    cov["harness_errors"] = len(errors)
    ev["coverage"] = cov
    ev["wall_s"] = round(time.time() - t0, 2)
    if cov["states"] < 1:
        cov["states"] = 0
    if not cov["samples"]:
        cov["samples"] = [dict(note="no completed path")]
    os.makedirs(EVID, exist_ok=True)
    with open(os.path.join(EVID, "%s.json" % pid), "w") as f:
        json.dump(vsym.jsonable(ev) if False else ev, f, indent=1, default=str)
    print("%s %s: paths=%d obligations=%d discharged=%d known=%d violations=%d unconfirmed=%d "
          "mismatch=%d errors=%d exhaustive=%s wall=%.1fs -> exit %d" % (
              pid, tier, cov["states"], cov["obligations"], cov["discharged"], len(seen), len(violations),
              len(unconfirmed), len(mismatches), len(errors), cov["exhaustive"], ev["wall_s"], code))
    return code


def replay_file(path, harnesses):
    from . import env
    with open(path) as f:
        body = json.load(f)
    h = next(x for x in harnesses if x.name == body["harness"])
    cp = vsym.run_concrete(lambda E: (env.for_path(E, h.solvers[0]), h.fn(E))[1], body["inputs"], tol=h.tol)
    want = body["label"].split(":")[0]
    hit = [cf for cf in cp.failures if cf["label"].split(":")[0] == want]
    print(json.dumps(dict(reproduced=bool(hit), failures=cp.failures[:5], exception=cp.exception),
                     indent=1, default=str))
    return 1 if hit else 0
