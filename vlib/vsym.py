"""vsym - dynamic symbolic execution of real Python code on z3.

Proxies (SymReal / SymBool / SymInt) wrap z3 terms; ``bool(SymBool)`` asks the
current path whether both sides are feasible and forks by *re-execution with a
decision prefix* (depth first).  Every claim is ``E.prove(phi)`` = unsat(pc & ~phi).

Two path classes share one API so that a harness body is written once:

* ``SymPath``      - symbolic inputs, z3 decides branches and obligations exactly;
* ``ConcretePath`` - inputs are the concrete values of a solver model, the code
  under test runs on plain floats against the real solver, obligations are
  re-decided with a numeric tolerance (oracle variables stay z3 terms).

See DESIGN.md section 2.1 / 2.6.
"""
import math
import os
import zlib
import sys
import time
import traceback
from fractions import Fraction

import z3

try:  # numpy is present in /venv; only used to recognise its scalar types
    import numpy as _np
except Exception:  # pragma: no cover
    _np = None


# every XCHECK-th discharged obligation is re-decided by two independent solver binaries (SymPath._xcheck)
XCHECK = int(os.environ.get("VERIF_XCHECK", "0") or 0)
XCHECK_S = int(os.environ.get("VERIF_XCHECK_S", "5") or 5)
_XN = 0
QE_TIMEOUT_MS = int(os.environ.get("VERIF_QE_TIMEOUT_MS", "60000") or 60000)      # expiry is inconclusive (exit 2), never a verdict; 20 s was hit at load average 55

# --------------------------------------------------------------------------- errors
_COMM = None


def chash(e, memo=None):
    """structural hash of a z3 term that does not depend on the order of the arguments of commutative
    operators: the code under test iterates over sets of objects (hashed by address), so the same condition
    can be built with its conjuncts / summands in another order on a re-execution"""
    global _COMM
    if _COMM is None:
        _COMM = {z3.Z3_OP_AND, z3.Z3_OP_OR, z3.Z3_OP_ADD, z3.Z3_OP_MUL, z3.Z3_OP_EQ, z3.Z3_OP_DISTINCT, z3.Z3_OP_IFF}
    memo = {} if memo is None else memo
    k = e.get_id()
    if k in memo:
        return memo[k]
    if z3.is_app(e):
        d = e.decl()
        kind = d.kind()
        kids = [chash(c, memo) for c in e.children()]
        if kind in _COMM:
            kids.sort()
        if kind == z3.Z3_OP_UNINTERPRETED:
            h = zlib.crc32(("u:%s:%s" % (d.name(), kids)).encode())
        elif not kids:
            h = zlib.crc32(("c:%s" % e.sexpr()).encode())
        else:
            h = zlib.crc32(("a:%d:%s" % (kind, kids)).encode())
    elif z3.is_quantifier(e):
        h = zlib.crc32(("q:%s" % chash(e.body(), memo)).encode())
    else:
        h = zlib.crc32(e.sexpr().encode())
    memo[k] = h
    return h


class Abort(BaseException):
    """Path abandoned (infeasible assumption / pruned).  BaseException on purpose:
    code under test catches ``Exception`` in places."""


class Concretized(Exception):
    """A symbolic real leaked into C code (float()/hash()/index())."""


class Inconclusive(BaseException):
    """Solver returned unknown / timeout."""


class NotModelled(Exception):
    """The code reached something the LP contract stub does not model (MILP, QP)."""


class HarnessError(BaseException):    # BaseException: no `except Exception` in the code under test may swallow it
    pass


_CUR = None  # the path currently executing (one per process)


def cur():
    return _CUR


def _set_cur(p):
    global _CUR
    _CUR = p


# --------------------------------------------------------------------------- lifting
def _is_num(x):
    if isinstance(x, (int, float, Fraction)) and not isinstance(x, bool):
        return True
    if _np is not None and isinstance(x, (_np.integer, _np.floating)):
        return True
    return False


def _frac(x):
    """Exact rational of a python/numpy number (finite)."""
    if isinstance(x, Fraction):
        return x
    if isinstance(x, bool):
        return Fraction(int(x))
    if isinstance(x, int):
        return Fraction(x)
    if _np is not None and isinstance(x, _np.integer):
        return Fraction(int(x))
    if _np is not None and isinstance(x, _np.floating):
        x = float(x)
    if isinstance(x, float):
        if math.isinf(x) or math.isnan(x):
            raise OverflowError("non-finite")
        return Fraction(x)
    try:  # sympy numbers
        return Fraction(float(x))
    except Exception:
        raise TypeError("cannot lift %r" % (x,))


def rv(x):
    """z3 RealVal of an exact rational."""
    f = _frac(x)
    if f.denominator == 1:
        return z3.RealVal(f.numerator)
    return z3.Q(f.numerator, f.denominator)


def lift(x):
    """python number / SymReal / z3 term -> z3 arithmetic term"""
    if isinstance(x, SymReal):
        return x.t
    if isinstance(x, SymInt):
        return z3.ToReal(x.t)
    if isinstance(x, z3.ArithRef):
        return x
    return rv(x)


def is_inf(x):
    return isinstance(x, float) and math.isinf(x) or (
        _np is not None and isinstance(x, _np.floating) and math.isinf(float(x)))


def is_nan(x):
    return isinstance(x, float) and math.isnan(x)


def is_sym(x):
    return isinstance(x, (SymReal, SymBool, SymInt))


def zbool(c):
    """anything truthy-ish -> z3 BoolRef or python bool"""
    if isinstance(c, SymBool):
        return c.raw
    if isinstance(c, z3.BoolRef):
        return c
    if isinstance(c, (bool,)) or (_np is not None and isinstance(c, _np.bool_)):
        return bool(c)
    raise TypeError("not a boolean condition: %r" % (c,))


def _mk_bool(t):
    raw = t
    t = z3.simplify(t)
    if z3.is_true(t):
        return True
    if z3.is_false(t):
        return False
    return SymBool(t, raw)


# --------------------------------------------------------------------------- proxies
class SymBool(object):
    __slots__ = ("t", "raw")

    def __init__(self, t, raw=None):
        self.t = t
        self.raw = raw if raw is not None else t      # the term as built (stable structure, used to tag decisions)

    def __bool__(self):
        p = _CUR
        if p is None:
            raise HarnessError("symbolic boolean used outside a path")
        return p.branch(self.t, self.raw)

    def __and__(self, o):
        o = zbool(o)
        return _mk_bool(z3.And(self.raw, o)) if not isinstance(o, bool) else (self if o else False)

    __rand__ = __and__

    def __or__(self, o):
        o = zbool(o)
        return _mk_bool(z3.Or(self.raw, o)) if not isinstance(o, bool) else (True if o else self)

    __ror__ = __or__

    def __invert__(self):
        return _mk_bool(z3.Not(self.raw))

    def __xor__(self, o):
        o = zbool(o)
        return _mk_bool(z3.Xor(self.t, o if not isinstance(o, bool) else z3.BoolVal(o)))

    __rxor__ = __xor__

    def __hash__(self):
        raise Concretized("hash(SymBool)")

    def __eq__(self, o):
        o = zbool(o)
        return _mk_bool(self.t == (o if not isinstance(o, bool) else z3.BoolVal(o)))

    def __ne__(self, o):
        r = self.__eq__(o)
        return (not r) if isinstance(r, bool) else ~r

    def __repr__(self):
        return "SymBool(%s)" % (self.t,)

    def __deepcopy__(self, memo):
        return self

    def __copy__(self):
        return self

    def __reduce__(self):
        return (_revive, (_stash(self),))


_STASH = {}


def _stash(o):
    _STASH[id(o)] = o
    return id(o)


def _revive(k):
    return _STASH[k]


class SymReal(object):
    """A finite real number denoted by a z3 term."""
    __slots__ = ("t",)


    def __init__(self, t):
        self.t = t

    # -- arithmetic
    def _bin(self, o, f, name):
        if isinstance(o, SymReal):
            return SymReal(f(self.t, o.t))
        if isinstance(o, SymInt):
            return SymReal(f(self.t, z3.ToReal(o.t)))
        if _is_num(o):
            if is_inf(o) or is_nan(o):
                return NotImplemented
            return SymReal(f(self.t, rv(o)))
        return NotImplemented

    def __add__(self, o):
        if is_inf(o):
            return float(o)
        return self._bin(o, lambda a, b: a + b, "+")

    __radd__ = __add__

    def __sub__(self, o):
        if is_inf(o):
            return -float(o)
        return self._bin(o, lambda a, b: a - b, "-")

    def __rsub__(self, o):
        if is_inf(o):
            return float(o)
        return self._bin(o, lambda a, b: b - a, "r-")

    def __mul__(self, o):
        if isinstance(o, (SymReal, SymInt)):
            p = _CUR
            if p is not None:
                p.stats["nonlinear_terms"] += 1
        if is_inf(o):
            if self > 0:
                return float(o)
            if self < 0:
                return -float(o)
            return float("nan")
        if _is_num(o) and not is_nan(o) and _frac(o) == 0:
            return 0.0 * o if isinstance(o, float) else 0
        return self._bin(o, lambda a, b: a * b, "*")

    __rmul__ = __mul__

    def __truediv__(self, o):
        if is_inf(o):
            return 0.0
        if isinstance(o, (SymReal, SymInt)):
            p = _CUR
            if p is not None:
                p.stats["nonlinear_terms"] += 1
            if o == 0:
                raise ZeroDivisionError("symbolic division by zero")
            return SymReal(self.t / lift(o))
        if _is_num(o):
            if _frac(o) == 0:
                raise ZeroDivisionError("float division by zero")
            return SymReal(self.t / rv(o))
        return NotImplemented

    def __rtruediv__(self, o):
        if _is_num(o) and not is_inf(o):
            p = _CUR
            if p is not None:
                p.stats["nonlinear_terms"] += 1
            if self == 0:
                raise ZeroDivisionError("symbolic division by zero")
            return SymReal(rv(o) / self.t)
        return NotImplemented

    def __neg__(self):
        return SymReal(-self.t)

    def __pos__(self):
        return self

    def __abs__(self):
        return SymReal(z3.If(self.t >= 0, self.t, -self.t))

    def __pow__(self, k):
        if isinstance(k, int) and k == 1:
            return self
        if isinstance(k, int) and k == 2:
            return self * self
        return NotImplemented

    def conjugate(self):
        return self

    # -- comparisons (with +-inf decided concretely: a SymReal is finite)
    def _cmp(self, o, f, inf_pos, inf_neg):
        if is_nan(o):
            return False
        if is_inf(o):
            return inf_pos if float(o) > 0 else inf_neg
        if isinstance(o, (SymReal, SymInt)) or _is_num(o):
            return _mk_bool(f(self.t, lift(o)))
        return NotImplemented

    def __lt__(self, o):
        return self._cmp(o, lambda a, b: a < b, True, False)

    def __le__(self, o):
        return self._cmp(o, lambda a, b: a <= b, True, False)

    def __gt__(self, o):
        return self._cmp(o, lambda a, b: a > b, False, True)

    def __ge__(self, o):
        return self._cmp(o, lambda a, b: a >= b, False, True)

    def __eq__(self, o):
        if o is None:
            return False
        r = self._cmp(o, lambda a, b: a == b, False, False)
        return False if r is NotImplemented else r

    def __ne__(self, o):
        if o is None:
            return True
        r = self._cmp(o, lambda a, b: a != b, True, True)
        return True if r is NotImplemented else r

    def __bool__(self):
        return bool(self != 0)

    def __hash__(self):
        raise Concretized("hash(SymReal)")

    def __float__(self):
        raise Concretized("float(SymReal %s)" % (self.t,))

    def __int__(self):
        raise Concretized("int(SymReal)")

    def __index__(self):
        raise Concretized("index(SymReal)")

    def __round__(self, n=None):
        raise Concretized("round(SymReal)")

    def __repr__(self):
        return "SymReal(%s)" % (self.t,)

    def __format__(self, spec):
        return "<%s>" % (self.t,)

    def __deepcopy__(self, memo):
        return self

    def __copy__(self):
        return self

    def __reduce__(self):
        return (_revive, (_stash(self),))


class SymInt(object):
    """Bounded symbolic integer; stays symbolic through arithmetic and comparison,
    is case-split by the solver when it has to become a C integer (__index__)."""
    __slots__ = ("t",)

    def __init__(self, t):
        self.t = t

    def _l(self, o):
        if isinstance(o, SymInt):
            return o.t
        if isinstance(o, bool):
            return z3.IntVal(int(o))
        if isinstance(o, int):
            return z3.IntVal(o)
        return None

    def _bin(self, o, f):
        b = self._l(o)
        if b is None:
            return NotImplemented
        return SymInt(f(self.t, b))

    def __add__(self, o):
        return self._bin(o, lambda a, b: a + b)

    __radd__ = __add__

    def __sub__(self, o):
        return self._bin(o, lambda a, b: a - b)

    def __rsub__(self, o):
        return self._bin(o, lambda a, b: b - a)

    def __mul__(self, o):
        return self._bin(o, lambda a, b: a * b)

    __rmul__ = __mul__

    def __neg__(self):
        return SymInt(-self.t)

    def _cmp(self, o, f):
        b = self._l(o)
        if b is None:
            if isinstance(o, float):
                return _mk_bool(f(z3.ToReal(self.t), rv(o)))
            return NotImplemented
        return _mk_bool(f(self.t, b))

    def __lt__(self, o):
        return self._cmp(o, lambda a, b: a < b)

    def __le__(self, o):
        return self._cmp(o, lambda a, b: a <= b)

    def __gt__(self, o):
        return self._cmp(o, lambda a, b: a > b)

    def __ge__(self, o):
        return self._cmp(o, lambda a, b: a >= b)

    def __eq__(self, o):
        r = self._cmp(o, lambda a, b: a == b)
        return False if r is NotImplemented else r

    def __ne__(self, o):
        r = self._cmp(o, lambda a, b: a != b)
        return True if r is NotImplemented else r

    def __bool__(self):
        return bool(self != 0)

    def __hash__(self):
        return hash(self.__index__())

    def __index__(self):
        p = _CUR
        if p is None:
            raise HarnessError("SymInt outside path")
        return p.concretize_int(self.t)

    __int__ = __index__

    def __repr__(self):
        return "SymInt(%s)" % (self.t,)

    def __deepcopy__(self, memo):
        return self

    def __reduce__(self):
        return (_revive, (_stash(self),))


# --------------------------------------------------------------------------- model values
def _val_to_py(v):
    """z3 numeral -> Fraction/int/bool (or None)"""
    if v is None:
        return None
    if z3.is_int_value(v):
        return v.as_long()
    if z3.is_rational_value(v):
        return Fraction(v.numerator_as_long(), v.denominator_as_long())
    if z3.is_true(v):
        return True
    if z3.is_false(v):
        return False
    if z3.is_algebraic_value(v):
        a = v.approx(20)
        return Fraction(a.numerator_as_long(), a.denominator_as_long())
    return None


def jsonable(x):
    if isinstance(x, Fraction):
        return str(x) if x.denominator != 1 else x.numerator
    if isinstance(x, (list, tuple)):
        return [jsonable(i) for i in x]
    if isinstance(x, dict):
        return {str(k): jsonable(v) for k, v in x.items()}
    if isinstance(x, (SymReal, SymInt, SymBool)):
        return str(x.t)
    if isinstance(x, float) and (math.isinf(x) or math.isnan(x)):
        return repr(x)
    if isinstance(x, (str, int, float, bool)) or x is None:
        return x
    return repr(x)


def from_jsonable_num(x):
    if isinstance(x, str):
        if x in ("inf", "-inf", "nan"):
            return float(x)
        return Fraction(x)
    return x


# --------------------------------------------------------------------------- paths
class _PathBase(object):
    symbolic = True

    def __init__(self):
        self.inputs = {}        # name -> z3 term / concrete value (the replayable inputs)
        self.trace = []         # human-readable decision trace
        self.notes = {}         # harness-supplied detail for failure signatures
        self.failures = []
        self.obl = {}           # label -> [discharged, failed, trivial]
        self.stats = dict(branch_q=0, prove_q=0, forall_q=0, solver_s=0.0, decisions=0,
                          nonlinear_terms=0, unknown=0)
        self._names = {}
        self.solve_log = []     # filled by symlp: one record per optimize()

    # naming -----------------------------------------------------------------
    def _uniq(self, name):
        k = self._names.get(name, 0)
        self._names[name] = k + 1
        return name if k == 0 else "%s#%d" % (name, k)

    def note(self, **kw):
        self.notes.update(kw)

    def _count(self, label, i):
        self.obl.setdefault(label, [0, 0, 0])[i] += 1

    # tolerance-aware leaf comparisons (exact in symbolic mode) -----------------
    tol = 0

    def eq(self, a, b):
        raise NotImplementedError

    def all_of(self, conds):
        cs = [zbool(c) for c in conds]
        if any(c is False for c in cs):
            return False
        cs = [c for c in cs if c is not True]
        if not cs:
            return True
        return z3.And(*cs) if len(cs) > 1 else cs[0]

    def any_of(self, conds):
        cs = [zbool(c) for c in conds]
        if any(c is True for c in cs):
            return True
        cs = [c for c in cs if c is not False]
        if not cs:
            return False
        return z3.Or(*cs) if len(cs) > 1 else cs[0]

    def implies(self, a, b):
        return self.any_of([self.neg(a), b])

    def neg(self, a):
        a = zbool(a)
        return (not a) if isinstance(a, bool) else z3.Not(a)

    def iff(self, a, b):
        return self.all_of([self.implies(a, b), self.implies(b, a)])


class SymPath(_PathBase):
    """One execution of the harness under a decision prefix."""
    symbolic = True

    def __init__(self, prefix, timeout_ms=30000):
        _PathBase.__init__(self)
        self.prefix = prefix
        self.decisions = []
        self.pending = []       # alternative prefixes discovered on this path
        self.solver = z3.Solver()
        self.solver.set("timeout", timeout_ms)
        self.last_model = None
        self.pc_size = 0
        self.aborted = None
        self.samples_pc = []

    # -- solver helpers ------------------------------------------------------
    def _check(self, extra=None, kind="branch_q"):
        t0 = time.time()
        self.stats[kind] += 1
        if extra is not None:
            self.solver.push()
            self.solver.add(extra)
        r = self.solver.check()
        m = None
        if r == z3.sat:
            m = self.solver.model()
        if extra is not None:
            self.solver.pop()
        self.stats["solver_s"] += time.time() - t0
        if r == z3.unknown:
            self.stats["unknown"] += 1
            raise Inconclusive("solver unknown: %s" % self.solver.reason_unknown())
        return (r == z3.sat), m

    def _model_says(self, cond):
        if self.last_model is None:
            return None
        try:
            v = self.last_model.eval(cond, model_completion=True)
        except z3.Z3Exception:
            return None
        if z3.is_true(v):
            return True
        if z3.is_false(v):
            return False
        return None

    def _add(self, c):
        self.solver.add(c)
        self.pc_size += 1

    def _replayed(self, kind, tag):
        """next decision of the prefix; it must be of the same kind and made on the same condition (structural
        hash) as when it was first taken - otherwise the re-execution diverged (e.g. hash-order dependent code)"""
        d = self.prefix[len(self.decisions)]
        if not (isinstance(d, tuple) and len(d) == 3 and d[0] == kind):
            raise HarnessError("re-execution diverged: expected a %r decision, prefix has %r" % (kind, d))
        if d[2] != tag:
            raise HarnessError("re-execution diverged: %r decision taken on a different condition" % kind)
        return d[1]

    # -- decisions -------------------------------------------------------------
    def branch(self, cond, raw=None):
        tag = chash(raw if raw is not None else cond)     # order-insensitive structural hash of the term as built
        cond = z3.simplify(cond)
        if z3.is_true(cond):
            return True
        if z3.is_false(cond):
            return False
        i = len(self.decisions)
        if i < len(self.prefix):
            d = self._replayed("b", tag)
        else:
            # invariant: the path condition is satisfiable, so at least one side is
            hint = self._model_says(cond)
            mt = mf = None
            if hint is True:
                t, mt = True, self.last_model
                f, mf = self._check(z3.Not(cond))
            elif hint is False:
                f, mf = True, self.last_model
                t, mt = self._check(cond)
            else:
                t, mt = self._check(cond)
                if t:
                    f, mf = self._check(z3.Not(cond))
                else:
                    f, mf = True, None
            if t and f:
                d = True
                self.pending.append(self.decisions + [("b", False, tag)])
            elif t or f:
                d = bool(t)
                self._xcheck(z3.Not(cond) if t else cond)     # the pruned side is a deciding `unsat` too
            else:
                raise Abort("path condition unsatisfiable")
            self.last_model = mt if d else mf
        self.decisions.append(("b", d, tag))
        self.stats["decisions"] += 1
        self._add(cond if d else z3.Not(cond))
        if i < len(self.prefix):
            self.last_model = None
        return d

    def choice(self, name, n, labels=None):
        """exhaustive structural case split over range(n)"""
        if n <= 0:
            raise HarnessError("empty choice %s" % name)
        name = self._uniq(name)
        i = len(self.decisions)
        tag = zlib.crc32(("%s/%d" % (name, n)).encode())
        if i < len(self.prefix):
            v = self._replayed("c", tag)
            if not (0 <= v < n):
                raise HarnessError("re-execution diverged at choice %s: prefix value %r" % (name, v))
        else:
            v = 0
            for k in range(n - 1, 0, -1):
                self.pending.append(self.decisions + [("c", k, tag)])
        self.decisions.append(("c", v, tag))
        self.stats["decisions"] += 1
        self.inputs[name] = v
        self.trace.append((name, labels[v] if labels else v))
        return v

    def pick(self, name, options):
        opts = list(options)
        return opts[self.choice(name, len(opts), [str(o) for o in opts])]

    def flag(self, name):
        return bool(self.choice(name, 2, ["no", "yes"]))

    def concretize_int(self, t):
        t = z3.simplify(t)
        if z3.is_int_value(t):
            return t.as_long()
        while True:
            i = len(self.decisions)
            if i < len(self.prefix):
                d = self.prefix[i]
                # prefix entries for int concretisation are ('i', value, taken)
                if not (isinstance(d, tuple) and d[0] == "i"):
                    raise HarnessError("re-execution diverged at int split: prefix has %r" % (d,))
                _, v, taken = d
            else:
                ok, m = self._check(None)
                if not ok:
                    raise Abort("infeasible at int split")
                v = m.eval(t, model_completion=True).as_long()
                other, _ = self._check(t != v)
                taken = True
                if other:
                    self.pending.append(self.decisions + [("i", v, False)])
                else:
                    self._xcheck(t != v)
            self.decisions.append(("i", v, taken))
            self.stats["decisions"] += 1
            if taken:
                self._add(t == v)
                self.last_model = None
                return v
            self._add(t != v)
            self.last_model = None

    # -- inputs ------------------------------------------------------------------
    def real(self, name, lo=None, hi=None):
        name = self._uniq(name)
        t = z3.Real(name)
        self.inputs[name] = t
        if lo is not None:
            self._add(t >= rv(lo))
        if hi is not None:
            self._add(t <= rv(hi))
        if self.last_model is not None:
            self.last_model = None
        return SymReal(t)

    def fresh(self, name):
        """unconstrained existential (oracle / stub variable); not a replay input"""
        name = self._uniq(name)
        return SymReal(z3.Real(name))

    def int(self, name, lo, hi):
        name = self._uniq(name)
        t = z3.Int(name)
        self.inputs[name] = t
        self._add(z3.And(t >= lo, t <= hi))
        self.last_model = None
        return SymInt(t)

    def bound(self, name, lo, hi, inf=True):
        """finite symbolic real in [lo,hi], or an infinity by structural choice.
        inf: False | True (both) | "+" | "-" (only that infinity)"""
        kinds = {False: [], True: ["+inf", "-inf"], "+": ["+inf"], "-": ["-inf"]}[inf]
        if kinds:
            k = self.choice(name + ".kind", 1 + len(kinds), ["finite"] + kinds)
            if k:
                return float(kinds[k - 1])
        return self.real(name, lo, hi)

    # -- assumptions and obligations ----------------------------------------------
    def assume(self, cond):
        c = zbool(cond)
        if c is True:
            return
        if c is False:
            raise Abort("assume(False)")
        hint = self._model_says(c)
        self._add(c)
        if hint is True:
            return
        ok, m = self._check(None)
        if not ok:
            raise Abort("assumption unsatisfiable")
        self.last_model = m

    def feasible(self, cond):
        """is pc & cond satisfiable? (no fork)"""
        c = zbool(cond)
        if isinstance(c, bool):
            return c
        ok, _ = self._check(c)
        return ok

    def prove(self, cond, label, **detail):
        c = zbool(cond)
        if c is True:
            self._count(label, 2)
            return True
        if c is False:
            ok, m = self._check(None, "prove_q")
            if not ok:
                raise Abort("pc unsat at prove")
            self._fail(label, m, detail)
            return False
        c = z3.simplify(c)
        if z3.is_true(c):
            self._count(label, 2)
            return True
        sat, m = self._check(z3.Not(c), "prove_q")
        if not sat:
            self._xcheck(z3.Not(c))
            self._count(label, 0)
            return True
        self._fail(label, m, detail)
        return False

    def _xcheck(self, negated):
        """second opinion on a deciding `unsat`: every XCHECK-th discharged obligation is written out as SMT-LIB2
        (path condition + negated obligation) and put to the z3 4.8.12 and cvc5 1.0.3 binaries, which share no code
        with the z3 5.1 library that decided it.  `sat` from either is a disagreement (harness error, exit 2, query
        kept for inspection); unknown / timeout / parse errors are counted, not believed."""
        global _XN
        if not XCHECK:
            return
        _XN += 1
        if _XN % XCHECK:
            return
        import subprocess
        import tempfile
        s2 = z3.Solver()
        s2.add(self.solver.assertions())
        s2.add(negated)
        text = s2.to_smt2()
        fd, path = tempfile.mkstemp(suffix=".smt2", prefix="vsym_x_")
        with os.fdopen(fd, "w") as f:
            f.write(text)
        self.stats["xcheck_queries"] = self.stats.get("xcheck_queries", 0) + 1
        keep = False
        t0 = time.time()
        try:
            for name, cmd in (("z3_4_8_12", ["/usr/bin/z3", "-T:%d" % XCHECK_S, path]),
                              ("cvc5_1_0_3", ["/usr/bin/cvc5", "--tlimit=%d" % (XCHECK_S * 1000), path])):
                try:
                    out = subprocess.run(cmd, capture_output=True, text=True, timeout=XCHECK_S + 5).stdout
                except (OSError, subprocess.TimeoutExpired):
                    out = "timeout"
                lines = [l.strip() for l in out.splitlines() if l.strip()]
                if any(l.startswith("(error") for l in lines):
                    verdict = "error"
                elif "unsat" in lines:
                    verdict = "unsat"
                elif "sat" in lines:
                    verdict = "sat"
                else:
                    verdict = "unknown"
                k = "xcheck_%s_%s" % (name, verdict)
                self.stats[k] = self.stats.get(k, 0) + 1
                if verdict == "sat":
                    keep = True
                    raise HarnessError("solver disagreement: z3 %s says unsat, %s says sat; query kept at %s"
                                       % (z3.get_version_string(), name, path))
        finally:
            self.stats["xcheck_s"] = self.stats.get("xcheck_s", 0.0) + time.time() - t0
            if not keep:
                os.unlink(path)

    def fail(self, label, **detail):
        """unconditional failure on this path (e.g. unexpected exception)"""
        ok, m = self._check(None, "prove_q")
        if not ok:
            raise Abort("pc unsat at fail")
        self._fail(label, m, detail)

    def _fail(self, label, model, detail):
        self._count(label, 1)
        d = {k: v for k, v in self.notes.items() if not k.startswith("_")}
        d.update(detail)
        self.failures.append(dict(label=label, inputs=self.model_inputs(model), trace=list(self.trace),
                                  detail=jsonable(d), decisions=_dec_json(self.decisions)))

    def model_inputs(self, model):
        out = {}
        for k, t in self.inputs.items():
            if isinstance(t, z3.ExprRef):
                out[k] = jsonable(_val_to_py(model.eval(t, model_completion=True)))
            else:
                out[k] = t
        return out

    def witness_inputs(self):
        ok, m = self._check(None)
        if not ok:
            return None
        return self.model_inputs(m)

    # leaf comparisons: exact
    def eq(self, a, b):
        if a is None or b is None:
            return a is b
        if is_inf(a) or is_inf(b):
            return (is_inf(a) and is_inf(b) and float(a) == float(b))
        return lift(a) == lift(b)

    def le(self, a, b):
        if is_inf(a):
            return float(a) < 0 or (is_inf(b) and float(b) > 0)
        if is_inf(b):
            return float(b) > 0
        return lift(a) <= lift(b)

    def ge(self, a, b):
        return self.le(b, a)

    def lt(self, a, b, margin=0):
        return lift(a) < lift(b)

    def is_zero(self, a):
        return self.eq(a, 0)

    # -- quantifier handling ---------------------------------------------------------
    def forall_not(self, xs, feas):
        """quantifier-free equivalent of  forall xs. not feas  (z3 qe2)"""
        t0 = time.time()
        self.stats["forall_q"] += 1
        g = z3.Goal()
        g.add(z3.ForAll(xs, z3.Not(feas)))
        # quantifier elimination has no time limit of its own: a non-linear instance (symbolic matrix coefficient
        # times a bound variable) can run for hours.  Bounded; a timeout is inconclusive, never a verdict.
        try:
            res = z3.TryFor(z3.Then("qe2", "simplify"), QE_TIMEOUT_MS)(g).as_expr()
        except z3.Z3Exception:
            try:
                res = z3.TryFor(z3.Then("qe", "simplify"), QE_TIMEOUT_MS)(g).as_expr()
            except z3.Z3Exception as e:
                self.stats["solver_s"] += time.time() - t0
                self.stats["unknown"] += 1
                raise Inconclusive("quantifier elimination gave up: %s" % str(e)[:120])
        self.stats["solver_s"] += time.time() - t0
        return res

    def exists_fork(self, xs, feas, name="exists"):
        """fork on  exists xs. feas   vs   forall xs. not feas.
        True side: feas is added (xs stay as fresh existentials).  False side: the
        quantifier-free negation is added."""
        tag = chash(feas)
        feas = z3.simplify(feas)
        if z3.is_true(feas):
            return True
        if z3.is_false(feas):
            return False
        i = len(self.decisions)
        if i < len(self.prefix):
            d = self._replayed("e", tag)
            if d:
                self._add(feas)
            else:
                self._add(self.forall_not(xs, feas))
            self.last_model = None
        else:
            t, mt = self._check(feas)
            neg = None
            f = False
            if t:
                # does some parameter valuation make it infeasible?
                neg = self.forall_not(xs, feas)
                neg = z3.simplify(neg)
                if z3.is_false(neg):
                    f = False
                else:
                    f, _ = self._check(neg)
                    # cheap half of qe's contract (DESIGN section 7): neg & feas must be unsat
                    chk, _ = self._check(z3.And(neg, feas))
                    if chk:
                        raise Inconclusive("qe2 result not disjoint from feas")
            else:
                f = True
            if t and f:
                d = True
                self.pending.append(self.decisions + [("e", False, tag)])
            elif t:
                d = True
            elif f:
                d = False
                ok, _ = self._check(None)
                if not ok:
                    raise Abort("pc unsat")
            if d:
                self._add(feas)
                self.last_model = mt
            else:
                if neg is None:
                    neg = self.forall_not(xs, feas)
                self._add(neg)
                self.last_model = None
        self.decisions.append(("e", d, tag))
        self.stats["decisions"] += 1
        self.trace.append((self._uniq(name), "sat" if d else "unsat"))
        return d

    def prove_exists(self, xs, phi, label, witness=None, **detail):
        """prove  exists xs. phi  for every completion of the path: with a witness
        (dict z3 var -> term) by substitution, otherwise by quantifier elimination."""
        phi = zbool(phi)
        if isinstance(phi, bool):
            return self.prove(phi, label, **detail)
        if witness is not None:
            sub = [(x, lift(witness[x])) for x in xs]
            return self.prove(z3.substitute(phi, *sub), label, **detail)
        neg = self.forall_not(xs, phi)
        return self.prove(z3.Not(neg), label, **detail)


class Probe(object):
    """evaluate obligations without recording them: `prove` only notes whether the claim could fail on this path.
    Used to restrict a harness to pre-states that satisfy another property's invariant (whose violations that
    property's own check reports)."""

    def __init__(self, E):
        self._E = E
        self.failed = False

    def __getattr__(self, k):
        return getattr(self._E, k)

    def prove(self, cond, label, **detail):
        c = zbool(cond)
        if c is True:
            return True
        if c is False or self._E.feasible(z3.Not(c)):
            self.failed = True
            return False
        return True

    def fail(self, label, **detail):
        self.failed = True


def _dec_json(ds):
    return [list(d) if isinstance(d, tuple) else d for d in ds]


def _dec_from_json(ds):
    return [tuple(d) if isinstance(d, list) else d for d in ds]


class ConcretePath(_PathBase):
    """Replays concrete inputs against the real code; obligations re-decided with
    a numeric tolerance.  Oracle variables (fresh) remain z3 terms in a local solver."""
    symbolic = False

    def __init__(self, inputs, tol=1e-6):
        _PathBase.__init__(self)
        self.given = dict(inputs)
        self.defaulted = []
        self.tol = Fraction(tol)
        self.solver = z3.Solver()
        self.solver.set("timeout", 60000)
        self.used = set()

    def _get(self, name, default=0):
        name = self._uniq(name)
        if name not in self.given:
            # an input created after the point at which the replayed failure was recorded: any valid value will do
            self.defaulted.append(name)
            return name, default
        self.used.add(name)
        return name, from_jsonable_num(self.given[name])

    def choice(self, name, n, labels=None):
        name, v = self._get(name)
        v = int(v)
        self.inputs[name] = v
        self.trace.append((name, labels[v] if labels else v))
        return v

    def pick(self, name, options):
        opts = list(options)
        return opts[self.choice(name, len(opts), [str(o) for o in opts])]

    def flag(self, name):
        return bool(self.choice(name, 2, ["no", "yes"]))

    def real(self, name, lo=None, hi=None):
        name, v = self._get(name, default=(lo if lo is not None else (hi if hi is not None else 0)))
        v = float(v)
        self.inputs[name] = v
        return v

    def int(self, name, lo, hi):
        name, v = self._get(name, default=lo)
        self.inputs[name] = int(v)
        return int(v)

    def bound(self, name, lo, hi, inf=True):
        kinds = {False: [], True: ["+inf", "-inf"], "+": ["+inf"], "-": ["-inf"]}[inf]
        if kinds:
            k = self.choice(name + ".kind", 1 + len(kinds), ["finite"] + kinds)
            if k:
                return float(kinds[k - 1])
        return self.real(name, lo, hi)

    def fresh(self, name):
        return SymReal(z3.Real(self._uniq(name)))

    def branch(self, cond, raw=None):
        # only oracle-side conditions can reach here; decide them by the solver
        cond = z3.simplify(cond)
        if z3.is_true(cond):
            return True
        if z3.is_false(cond):
            return False
        t = self._sat(cond)
        f = self._sat(z3.Not(cond))
        if t and f:
            raise HarnessError("oracle-side branch undetermined on a concrete replay: %s" % cond)
        self.solver.add(cond if t else z3.Not(cond))
        return t

    def _sat(self, extra=None):
        self.stats["prove_q"] += 1
        t0 = time.time()
        if extra is not None:
            self.solver.push()
            self.solver.add(extra)
        r = self.solver.check()
        if extra is not None:
            self.solver.pop()
        self.stats["solver_s"] += time.time() - t0
        if r == z3.unknown:
            raise Inconclusive("unknown on concrete replay")
        return r == z3.sat

    def assume(self, cond):
        c = zbool(cond)
        if c is True:
            return
        if c is False:
            raise Abort("assume(False) on replay")
        self.solver.add(c)
        if not self._sat():
            raise Abort("assumption unsatisfiable on replay")

    def feasible(self, cond):
        c = zbool(cond)
        if isinstance(c, bool):
            return c
        return self._sat(c)

    def prove(self, cond, label, **detail):
        c = zbool(cond)
        if isinstance(c, bool):
            ok = c
        else:
            ok = not self._sat(z3.Not(c))
        if ok:
            self._count(label, 0)
        else:
            self._count(label, 1)
            d = {k: v for k, v in self.notes.items() if not k.startswith("_")}
            d.update(detail)
            self.failures.append(dict(label=label, inputs=jsonable(self.inputs), trace=list(self.trace),
                                      detail=jsonable(d)))
        return ok

    def fail(self, label, **detail):
        self.prove(False, label, **detail)

    def prove_exists(self, xs, phi, label, witness=None, **detail):
        phi = zbool(phi)
        if isinstance(phi, bool):
            return self.prove(phi, label, **detail)
        ok = self._sat(phi)
        if ok:
            self._count(label, 0)
        else:
            self._count(label, 1)
            d = {k: v for k, v in self.notes.items() if not k.startswith("_")}
            d.update(detail)
            self.failures.append(dict(label=label, inputs=jsonable(self.inputs), trace=list(self.trace),
                                      detail=jsonable(d)))
        return ok

    def exists_fork(self, xs, feas, name="exists"):
        feas = zbool(feas)
        if isinstance(feas, bool):
            return feas
        ok = self._sat(feas)
        if ok:
            self.solver.add(feas)
        return ok

    # leaf comparisons with tolerance
    def _l(self, a):
        if isinstance(a, (SymReal, z3.ArithRef)):
            return lift(a)
        return rv(a)

    def eq(self, a, b):
        if a is None or b is None:
            return a is b
        if is_inf(a) or is_inf(b):
            return is_inf(a) and is_inf(b) and float(a) == float(b)
        if is_nan(a) or is_nan(b):
            return False
        d = self._l(a) - self._l(b)
        return z3.And(d <= rv(self.tol), d >= rv(-self.tol))

    def le(self, a, b):
        if is_inf(a):
            return float(a) < 0 or (is_inf(b) and float(b) > 0)
        if is_inf(b):
            return float(b) > 0
        if is_nan(a) or is_nan(b):
            return False
        return self._l(a) <= self._l(b) + rv(self.tol)

    def ge(self, a, b):
        return self.le(b, a)

    def is_zero(self, a):
        return self.eq(a, 0)

    def witness_inputs(self):
        return jsonable(self.inputs)


# --------------------------------------------------------------------------- exploration
class Result(object):
    def __init__(self, name):
        self.name = name
        self.paths = 0
        self.aborted = 0
        self.completed = 0
        self.stats = dict(branch_q=0, prove_q=0, forall_q=0, solver_s=0.0, decisions=0,
                          nonlinear_terms=0, unknown=0)
        self.obl = {}
        self.failures = []
        self.fail_count = {}
        self.buckets = {}
        self.inconclusive = []
        self.errors = []
        self.samples = []
        self.witnesses = []
        self.functions = set()
        self.exhaustive = False
        self.pending = 0
        self.wall_s = 0.0
        self.not_modelled = 0
        self.top_choices = {}

    def merge_path(self, p, keep_failures=4):
        self.paths += 1
        for k, v in p.stats.items():
            self.stats[k] = self.stats.get(k, 0) + v
        for l, c in p.obl.items():
            o = self.obl.setdefault(l, [0, 0, 0])
            for i in range(3):
                o[i] += c[i]
        for f in p.failures:
            self.fail_count[f["label"]] = self.fail_count.get(f["label"], 0) + 1
            b = bucket(f)
            n = self.buckets.get(b, 0)
            self.buckets[b] = n + 1
            if n < keep_failures and len(self.failures) < 4000:
                self.failures.append(f)

    def merge(self, o):
        self.paths += o.paths
        self.aborted += o.aborted
        self.completed += o.completed
        self.not_modelled += o.not_modelled
        for k, v in o.stats.items():
            self.stats[k] = self.stats.get(k, 0) + v
        for l, c in o.obl.items():
            t = self.obl.setdefault(l, [0, 0, 0])
            for i in range(3):
                t[i] += c[i]
        for l, n in o.fail_count.items():
            self.fail_count[l] = self.fail_count.get(l, 0) + n
        have = {}
        for f in self.failures:
            have[bucket(f)] = have.get(bucket(f), 0) + 1
        for f in o.failures:
            b = bucket(f)
            if have.get(b, 0) < 4 and len(self.failures) < 4000:
                self.failures.append(f)
                have[b] = have.get(b, 0) + 1
        for b, n in o.buckets.items():
            self.buckets[b] = self.buckets.get(b, 0) + n
        self.inconclusive.extend(o.inconclusive[: max(0, 20 - len(self.inconclusive))])
        self.errors.extend(o.errors[: max(0, 20 - len(self.errors))])
        if len(self.samples) < 6:
            self.samples.extend(o.samples[: 6 - len(self.samples)])
        if len(self.witnesses) < 400:
            self.witnesses.extend(o.witnesses[: 400 - len(self.witnesses)])
        self.functions |= o.functions
        for k, v in o.top_choices.items():
            self.top_choices[k] = self.top_choices.get(k, 0) + v


_BUCKET_KEYS = ("op", "what", "exc", "edit", "analysis", "kind", "cls", "copy", "format", "entity", "reference", "template",
                "operation", "direction", "reversible", "saved", "loaded")


def bucket(f):
    """failures are kept per *kind* (label + the harness' classifying detail), never per label only: a flood of one
    kind (e.g. a known finding) must not crowd another kind out of the sample that gets replayed"""
    det = f.get("detail") or {}
    parts = [f["label"]]
    for k in _BUCKET_KEYS:
        if k in det:
            parts.append("%s=%s" % (k, det[k]))
    for k in ("problems", "diff"):
        if det.get(k):
            import re as _re
            parts.append(_re.sub(r"[0-9]+", "#", str(det[k][0]))[:80])
    ops = det.get("ops")
    if ops:
        parts.append("ops=%s" % ",".join(str(o) for o in ops[-3:]))
    return "|".join(parts)


def _profile_collector(store, roots):
    def prof(frame, event, arg):
        if event == "call":
            fn = frame.f_code.co_filename
            for r in roots:
                if fn.startswith(r):
                    store.add("%s:%s" % (fn[len(r):].lstrip("/"), frame.f_code.co_qualname))
                    break
    return prof


_VERIF_ROOT = os.path.dirname(os.path.dirname(os.path.abspath(__file__)))


def _ours(filename):
    """exception raised inside /verif code other than the optlang-compatible stub (whose errors mirror optlang's)"""
    return filename.startswith(_VERIF_ROOT) and not filename.endswith("symlp.py")


def run_one(harness, prefix, res, profile=False, witness_every=0, timeout_ms=30000,
            roots=("/repo/src/",)):
    """execute one path; returns list of pending prefixes"""
    p = SymPath(prefix, timeout_ms=timeout_ms)
    _set_cur(p)
    if profile:
        sys.setprofile(_profile_collector(res.functions, roots))
    status = "ok"
    try:
        harness(p)
        res.completed += 1
    except Abort:
        res.aborted += 1
        status = "aborted"
    except Inconclusive as e:
        res.inconclusive.append(dict(why=str(e), trace=p.trace[:30], decisions=_dec_json(p.decisions)))
        status = "inconclusive"
    except NotModelled as e:
        res.not_modelled += 1
        res.errors.append(dict(kind="not_modelled", why=str(e), trace=p.trace[:30]))
        status = "not_modelled"
    except Concretized as e:
        # a symbolic value reached C code (float()/hash()/index()): this path cannot be decided symbolically.
        # Fall back to its witness: the runner replays it concretely on the real build and evaluates the
        # obligations there; the path itself stays inconclusive.
        try:
            w = p.witness_inputs()
        except (Abort, Inconclusive):
            w = None
        res.errors.append(dict(kind="Concretized", why=str(e), trace=p.trace[:30], witness=w,
                               tb=traceback.format_exc()[-1500:]))
        status = "error"
    except HarnessError as e:
        res.errors.append(dict(kind=type(e).__name__, why=str(e), trace=p.trace[:30],
                               tb=traceback.format_exc()[-1500:]))
        status = "error"
    except Exception as e:  # unexpected exception escaping the code under test / harness
        tb = traceback.extract_tb(e.__traceback__)
        inner = tb[-1].filename if tb else ""
        if isinstance(e, (TypeError, ValueError)) and any(k in str(e) for k in ("vlib.env.Float", "SymReal", "SymInt", "SymBool")):
            # a C-level library (numpy / pandas) rejected a proxy or the float stand-in: same situation as
            # Concretized - not decidable symbolically, the witness is replayed on the real build instead
            try:
                w = p.witness_inputs()
            except (Abort, Inconclusive):
                w = None
            res.errors.append(dict(kind="Concretized", why="library rejected a proxy: " + str(e)[:200], trace=p.trace[:30],
                                   witness=w, tb=traceback.format_exc()[-1500:]))
            inner = None
        if inner is not None and _ours(inner):
            # raised by our own harness / oracle / engine code: a harness error, never a verdict
            res.errors.append(dict(kind="harness-exception:" + type(e).__name__, why=str(e)[:300], trace=p.trace[:30],
                                   tb=traceback.format_exc()[-1500:]))
            status = "error"
            inner = None
        try:
            if inner is None:
                raise Abort("harness error")
            p.fail("unexpected-exception", exc=type(e).__name__, msg=str(e)[:300],
                   where="%s:%s" % (inner, tb[-1].lineno if tb else 0),
                   tb=traceback.format_exc()[-1200:])
        except (Abort, Inconclusive):
            pass
        status = "exception"
    finally:
        if profile:
            sys.setprofile(None)
        _set_cur(None)
    res.merge_path(p)
    if p.trace:
        k = "%s=%s" % (p.trace[0][0], p.trace[0][1])
        res.top_choices[k] = res.top_choices.get(k, 0) + 1
    if status == "ok":
        if len(res.samples) < 3:
            try:
                res.samples.append(dict(trace=jsonable(p.trace[:40]), witness=p.witness_inputs(),
                                        obligations={k: v for k, v in p.obl.items()}))
            except (Abort, Inconclusive):
                pass
        if witness_every and (res.completed % witness_every == 1 or witness_every == 1) and len(res.witnesses) < 60:
            try:
                w = p.witness_inputs()
                if w is not None:
                    res.witnesses.append(w)
            except (Abort, Inconclusive):
                pass
    return p.pending


def explore_chunk(args):
    """worker: DFS below the given prefixes for at most `budget_s` seconds"""
    (harness_ref, prefixes, budget_s, max_paths, opts) = args
    harness = _resolve(harness_ref)
    res = Result(harness_ref if isinstance(harness_ref, str) else getattr(harness, "__name__", "h"))
    stack = [_dec_from_json(p) for p in prefixes]
    t0 = time.time()
    n = 0
    while stack and n < max_paths and (n == 0 or time.time() - t0 < budget_s):
        pre = stack.pop()
        pend = run_one(harness, pre, res, profile=(n % opts.get("profile_every", 7) == 0),
                       witness_every=opts.get("witness_every", 0),
                       timeout_ms=opts.get("timeout_ms", 30000))
        stack.extend(pend)
        n += 1
    return res, [_dec_json(p) for p in stack]


_HARNESSES = {}


def register(name, fn):
    _HARNESSES[name] = fn


def _resolve(ref):
    if callable(ref):
        return ref
    return _HARNESSES[ref]


def explore(harness, name=None, max_paths=100000, time_budget=600.0, workers=None, seed=0,
            chunk_s=1.5, opts=None):
    """Exhaustive (within budget) exploration of the harness' path tree on `workers` processes."""
    import multiprocessing as mp
    import random
    opts = dict(opts or {})
    name = name or getattr(harness, "__name__", "harness")
    register(name, harness)
    workers = workers or min(16, os.cpu_count() or 1)
    total = Result(name)
    t0 = time.time()
    queue = [[]]
    rnd = random.Random(seed)
    if workers <= 1:
        while queue and total.paths < max_paths and time.time() - t0 < time_budget:
            r, left = explore_chunk((name, [queue.pop()], chunk_s, max_paths - total.paths, opts))
            total.merge(r)
            queue.extend(left)
    else:
        ctx = mp.get_context("fork")
        pool = ctx.Pool(workers)
        try:
            outstanding = []
            while True:
                # fill
                while queue and len(outstanding) < workers * 2 and total.paths + len(outstanding) < max_paths \
                        and time.time() - t0 < time_budget:
                    # hand out up to a few prefixes per task once the frontier is wide
                    k = 1 if len(queue) < workers * 4 else min(8, len(queue) // (workers * 2))
                    batch = []
                    for _ in range(max(1, k)):
                        j = rnd.randrange(len(queue))
                        queue[j], queue[-1] = queue[-1], queue[j]
                        batch.append(queue.pop())
                    outstanding.append(pool.apply_async(
                        explore_chunk, ((name, batch, chunk_s, max(1, (max_paths - total.paths)), opts),)))
                if not outstanding:
                    break
                done = [o for o in outstanding if o.ready()]
                if not done:
                    time.sleep(0.005)
                    continue
                for o in done:
                    outstanding.remove(o)
                    r, left = o.get()
                    total.merge(r)
                    queue.extend(left)
        finally:
            pool.terminate()
            pool.join()
    total.pending = len(queue)
    total.exhaustive = (len(queue) == 0)
    total.wall_s = time.time() - t0
    return total


def run_concrete(harness, inputs, tol=1e-6):
    """Run the harness body on concrete inputs (real solver).  Returns the ConcretePath."""
    p = ConcretePath(inputs, tol=tol)
    _set_cur(p)
    p.exception = None
    try:
        harness(p)
    except Abort as e:
        p.exception = ("Abort", str(e))
    except Exception as e:
        tb = traceback.extract_tb(e.__traceback__)
        p.exception = (type(e).__name__, str(e)[:300])
        if tb and tb[-1].filename.startswith(_VERIF_ROOT):
            raise
        p.failures.append(dict(label="unexpected-exception", inputs=jsonable(p.inputs), trace=list(p.trace),
                               detail=jsonable(dict({k: v for k, v in p.notes.items() if not k.startswith("_")}, exc=type(e).__name__, msg=str(e)[:300],
                                                    tb=traceback.format_exc()[-1200:]))))
    finally:
        _set_cur(None)
    return p
