"""In-process nondeterministic stand-in for cobra.util.ProcessPool / multiprocessing.Pool (DESIGN C14).

Contract modelled (the documented one): each of W workers gets its *own unpickled copy* of initargs and runs
the initializer once; the item list is cut into consecutive chunks of `chunksize`; which worker takes which
chunk and the order in which finished chunks are reported are free - both are symbolic choices of the path,
so every assignment x completion order within the bound is explored; a worker executes its chunks
sequentially; chunksize < 1 raises as in the standard library.  Worker processes have private module
globals: the names the initializer sets in its module are swapped in and out around every task.
After every task the worker's model is observed: nothing may be carried over between tasks.
"""
import itertools
import pickle

from . import vsym
from .observe import observe, same

_COUNT = [0]
LOG = []          # (pool id, worker, item) executed, for evidence / obligations


class _Worker(object):
    def __init__(self, idx):
        self.idx = idx
        self.globals = {}      # name -> value private to this worker (per module dict id)
        self.started = False


class StubPool(object):
    def __init__(self, processes=None, initializer=None, initargs=(), maxtasksperchild=None, **kw):
        if processes is None or processes < 1:
            raise ValueError("Number of processes must be at least 1")
        E = vsym.cur()
        E._pool_count = getattr(E, "_pool_count", 0) + 1      # per path: names must be the same on a re-execution
        self.pid = E._pool_count
        self.W = processes
        self.initializer = initializer
        self.initargs = initargs
        self.workers = [_Worker(i) for i in range(processes)]
        self.closed = False

    def __enter__(self):
        return self

    def __exit__(self, *a):
        self.closed = True
        return None

    def close(self):
        self.closed = True

    def join(self):
        pass

    def terminate(self):
        self.closed = True

    # -- private globals of a worker ------------------------------------------------------------
    def _run_on(self, w, func, arg, is_init=False):
        g = (self.initializer or func).__globals__
        names = set(w.globals)
        saved = {n: g.get(n, _MISSING) for n in names}
        for n, v in w.globals.items():
            g[n] = v
        before = dict(g) if is_init else None
        try:
            if is_init:
                out = func(*arg)
                for n, v in g.items():
                    if n.startswith("__"):
                        continue
                    if n not in before or before[n] is not v:
                        w.globals[n] = v
                        if n not in saved:
                            saved[n] = before.get(n, _MISSING)
            else:
                out = func(arg)
                for n in list(w.globals):
                    w.globals[n] = g.get(n)
        finally:
            for n, v in saved.items():
                if v is _MISSING:
                    g.pop(n, None)
                else:
                    g[n] = v
        return out

    def _start(self, w):
        if w.started:
            return
        w.started = True
        if self.initializer is not None:
            args = pickle.loads(pickle.dumps(self.initargs))       # what crossing a process boundary does
            self._run_on(w, self.initializer, args, is_init=True)

    def _model_of(self, w):
        for v in w.globals.values():
            if type(v).__name__ == "Model" and hasattr(v, "reactions"):
                return v
        return None

    # -- the scheduling nondeterminism ------------------------------------------------------------
    def imap_unordered(self, func, iterable, chunksize=1):
        if chunksize < 1:
            raise ValueError("Chunksize must be 1+, not {0:n}".format(chunksize))
        E = vsym.cur()
        items = list(iterable)
        chunks = [items[i:i + chunksize] for i in range(0, len(items), chunksize)]
        assign = []
        for j in range(len(chunks)):
            assign.append(E.choice("pool%d.chunk%d.worker" % (self.pid, j), self.W))
        results = []
        for wi, w in enumerate(self.workers):
            mine = [j for j in range(len(chunks)) if assign[j] == wi]
            if mine:
                self._start(w)
            for j in mine:
                out = []
                for item in chunks[j]:
                    m = self._model_of(w)
                    b = observe(m) if m is not None else None
                    out.append(self._run_on(w, func, item))
                    LOG.append((self.pid, wi, item))
                    if m is not None:
                        same(E, b, observe(m), "worker-model-unchanged-after-task", what=getattr(func, "__name__", "task"))
                results.append((j, out))
        # completion order of the chunks: any order
        order = list(range(len(results)))
        if len(order) > 1:
            perms = list(itertools.permutations(order)) if len(order) <= 3 else [tuple(order), tuple(reversed(order))]
            order = list(perms[E.choice("pool%d.completion_order" % self.pid, len(perms))])
        for k in order:
            for r in results[k][1]:
                yield r

    def imap(self, func, iterable, chunksize=1):
        return iter(sorted_results(self, func, iterable, chunksize))

    def map(self, func, iterable, chunksize=None):
        return [self._serial(func, x) for x in iterable]

    def _serial(self, func, x):
        w = self.workers[0]
        self._start(w)
        return self._run_on(w, func, x)


def sorted_results(pool, func, iterable, chunksize):
    return [pool._serial(func, x) for x in iterable]


_MISSING = object()
