"""Operation alphabet for the bookkeeping properties C01-C03, C12 (DESIGN.md appendix C), the base model,
and the specification side: lp_equiv (C01) and cross-reference invariants (C02).

Every operation is a function op(E, m, S) performing one public cobra operation with symbolic numeric
arguments (fresh reals) and objects chosen by exhaustive choice.  Documented exceptions are caught and
recorded in S.log; anything else propagates (candidate violation).  An operation returns the model to
continue with (copy / pickle return a new one) or None.
"""
import copy as _copy
import hashlib
import math
import pickle

import z3
from cobra import Metabolite, Model, Reaction
from cobra.core import Group
from cobra.core.gene import GPR
from cobra.manipulation import knock_out_model_genes, remove_genes
from cobra.manipulation.modify import rename_genes

from . import vsym
from .observe import lp_snapshot
from .vsym import SymReal, is_inf, lift, rv

B = 2000


class State(object):
    def __init__(self):
        self.user_vars = set()      # names of variables the user added explicitly
        self.user_cons = set()
        self.log = []
        self.n = 0
        self.enter_obs = []         # stack of observations at `enter`

    def tag(self, s):
        self.n += 1
        return "%s%d" % (s, self.n)


# ----------------------------------------------------------------------------- base model
DEGENERATE = [True]


def base_model(E, sym_reactions=("R1",), sym_coef=True, groups=True):
    m = Model("bk")
    A = Metabolite("A", compartment="c", name="met A", formula="C1H2", charge=0)
    Bm = Metabolite("B", compartment="c", name="met B")
    P = Metabolite("P", compartment="c", name="met P")      # used by R3 only: removing R3 orphans it
    A.notes = {"n": "a"}
    A.annotation = {"kegg": ["C1"]}
    rs = {}
    for rid, st, bounds, rule in (("EX_A", {A: -1}, (-10, 10), ""), ("R1", {A: -1, Bm: 1}, (0, 10), "g1 and g2"),
                                  ("R2", {A: -1, Bm: 1}, (0, 10), "g1 or g3"), ("DM_B", {Bm: -1}, (0, 10), ""),
                                  ("R3", {Bm: -1, P: 1}, (0, 10), "")):
        r = Reaction(rid, name="rxn " + rid, lower_bound=bounds[0], upper_bound=bounds[1])
        st = dict(st)
        if rid in sym_reactions and sym_coef:
            ks = list(st)
            for k in ks:
                c = E.real("coef_%s_%s" % (rid, k.id), 0.25, 4)
                st[k] = -c if st[k] < 0 else c
        r.add_metabolites(st)
        if rule:
            r.gene_reaction_rule = rule
        rs[rid] = r
    rs["R1"].notes = {"note": "x"}
    rs["R1"].annotation = {"ec": ["1.1.1.1"]}
    m.add_reactions(list(rs.values()))
    if DEGENERATE[0]:
        # degenerate but legal members: a reaction without metabolites, a metabolite that takes part in no reaction
        empty = Reaction("EMPTY", name="rxn EMPTY", lower_bound=0, upper_bound=10)
        m.add_reactions([empty])
        m.add_metabolites([Metabolite("LONE", compartment="c", name="met LONE")])
        # ... and a gene that no reaction uses (what is left in model.genes once the last rule naming it is rewritten)
        empty.gene_reaction_rule = "g_free"
        empty.gene_reaction_rule = ""
    for rid in sym_reactions:
        r = m.reactions.get_by_id(rid)
        lb = E.real("lb_" + rid, -B, B)
        ub = E.real("ub_" + rid, -B, B)
        E.assume(E.le(lb, ub))
        r.bounds = (lb, ub)
    m.objective = "DM_B"
    if groups:
        g = Group("G1", name="group one", members=[m.reactions.R1, m.metabolites.A, m.genes.g1])
        m.add_groups([g])
        if DEGENERATE[0]:
            g.add_members([m.metabolites.LONE, m.genes.g_free])
    m.compartments = {"c": "cytosol"}
    return m


# ----------------------------------------------------------------------------- C01 specification
def _rev_id(rid):
    return "_".join((rid, "reverse", hashlib.md5(rid.encode("utf-8")).hexdigest()[0:5]))


def _bad_number(b):
    return isinstance(b, float) and (math.isinf(b) or math.isnan(b))


def _fwd_of(n, m):
    """reaction id whose reverse variable is named n (or n itself)"""
    for r in m.reactions:
        if n == r.id or n == _rev_id(r.id):
            return r.id
    return n


def lp_equiv(E, m, S, label="lp=fba"):
    """the recorded LP is exactly the split encoding of the model's flux-balance problem"""
    from cobra.util.solver import linear_reaction_coefficients
    snap = lp_snapshot(m)
    V, C, O = snap["variables"], snap["constraints"], snap["objective"]
    problems = []
    conds = []
    want_vars = set()
    for r in m.reactions:
        f, v = r.id, _rev_id(r.id)
        want_vars |= {f, v}
        if f not in V or v not in V:
            problems.append("reaction %s has no forward/reverse variable pair" % r.id)
            continue
        for n in (f, v):
            for k in ("lb", "ub"):
                if _bad_number(V[n][k]):
                    problems.append("%s.%s is a float infinity/nan" % (n, k))
            if V[n]["type"] != "continuous":
                problems.append("%s is not continuous" % n)
        fl, fu, rl, ru = V[f]["lb"], V[f]["ub"], V[v]["lb"], V[v]["ub"]
        lb, ub = r.lower_bound, r.upper_bound
        # net flux f - r ranges over [fl - ru, fu - rl]
        if fl is None or ru is None:
            conds.append((is_inf(lb) and float(lb) < 0, "net lower bound of %s is -inf but reaction says %r" % (r.id, lb)))
        elif is_inf(lb):
            problems.append("reaction %s lower bound %r but LP net lower bound is finite" % (r.id, lb))
        else:
            conds.append((E.eq(lift(fl) - lift(ru), lb), "net lower bound of %s" % r.id))
        if fu is None or rl is None:
            conds.append((is_inf(ub) and float(ub) > 0, "net upper bound of %s is +inf but reaction says %r" % (r.id, ub)))
        elif is_inf(ub):
            problems.append("reaction %s upper bound %r but LP net upper bound is finite" % (r.id, ub))
        else:
            conds.append((E.eq(lift(fu) - lift(rl), ub), "net upper bound of %s" % r.id))
    extra_v = set(V) - want_vars - S.user_vars
    if extra_v:
        problems.append("variables nobody asked for: %s" % sorted(extra_v))
    missing_user = (S.user_vars - set(V)) | (S.user_cons - set(C))
    if missing_user:
        problems.append("user-added objects missing from the LP: %s" % sorted(missing_user))
    want_rows = set()
    for met in m.metabolites:
        want_rows.add(met.id)
        if met.id not in C:
            problems.append("metabolite %s has no steady-state row" % met.id)
            continue
        row = C[met.id]
        conds.append((E.all_of([E.eq(row["lb"], 0) if row["lb"] is not None else False,
                                E.eq(row["ub"], 0) if row["ub"] is not None else False,
                                E.eq(row["const"], 0)]), "row %s is an equality to zero" % met.id))
        want = {}
        for r in m.reactions:
            c = r._metabolites.get(met)
            if c is not None:
                want[r.id] = c
                want[_rev_id(r.id)] = -c
        for n in set(want) | set(row["coefs"]):
            conds.append((E.eq(row["coefs"].get(n, 0), want.get(n, 0)), "coefficient of %s in row %s" % (n, met.id)))
    extra_c = set(C) - want_rows - S.user_cons
    if extra_c:
        problems.append("constraints nobody asked for: %s" % sorted(extra_c))
    # objective: the LP objective is sum reported_coef * (forward - reverse), direction as reported
    try:
        rep = {r.id: c for r, c in linear_reaction_coefficients(m, [r for r in m.reactions if r.id in V]).items()}
    except Exception as e:
        problems.append("linear_reaction_coefficients raised %s" % type(e).__name__)
        rep = {}
    want = {}
    for rid, c in rep.items():
        want[rid] = c
        want[_rev_id(rid)] = -c
    asym = getattr(S, "asym_ok", set())
    for n in set(want) | set(O["coefs"]):
        if n in S.user_vars and n not in want:
            continue
        if n in asym or (n in V and _fwd_of(n, m) in asym):
            continue        # handled per reaction below
        conds.append((E.eq(O["coefs"].get(n, 0), want.get(n, 0)), "objective coefficient of %s" % n))
    for r in m.reactions:
        if r.id not in asym:
            continue
        # the user set an objective on this reaction's variables that is not c*(forward - reverse): the documented
        # accessor reports c when the pair is exactly (c, -c) with c != 0 and nothing otherwise
        a, b = lift(O["coefs"].get(r.id, 0)), lift(O["coefs"].get(_rev_id(r.id), 0))
        if r.id in rep:
            conds.append((E.all_of([E.eq(a, rep[r.id]), E.eq(b, -lift(rep[r.id]))]), "objective coefficients of %s" % r.id))
        else:
            conds.append((E.neg(E.all_of([E.neg(E.eq(a, 0)), E.eq(a, -b)])), "unreported symmetric objective coefficient of %s" % r.id))
    # the objective as the user reads it (model.objective.expression) is the row the solver optimises, and it
    # mentions no variable that is not in the problem
    try:
        shown = {}
        for t, a in m.solver.objective.expression.as_coefficients_dict().items():
            if t == 1:
                continue
            shown[getattr(t, "name", str(t))] = a
        ghosts = sorted(n for n in shown if n not in V)
        if ghosts:
            problems.append("objective expression mentions variables that are not in the problem: %s" % ghosts)
        for n in set(shown) | set(O["coefs"]):
            if n in V:
                conds.append((E.eq(shown.get(n, 0), O["coefs"].get(n, 0)), "objective expression term %s vs solver row" % n))
    except Exception as e:
        problems.append("reading model.objective.expression raised %s" % type(e).__name__)
    for r in m.reactions:
        try:
            oc = r.objective_coefficient
        except Exception as e:
            problems.append("objective_coefficient of %s raised %s" % (r.id, type(e).__name__))
            continue
        conds.append((E.eq(oc, rep.get(r.id, 0)), "objective_coefficient accessor of %s" % r.id))
    if O["direction"] != m.objective_direction or O["direction"] not in ("max", "min"):
        problems.append("direction %r vs reported %r" % (O["direction"], m.objective_direction))
    E.prove(not problems, label + ":structure", problems=problems[:4], **S_detail(S))
    cs = [c for c, _ in conds]
    if not E.prove(E.all_of(cs), label + ":values", **S_detail(S)):
        for c, what in conds:
            if c is True:
                continue
            if c is False or not E.feasible(E.neg(E.neg(c))) or E.feasible(E.neg(c)):
                E.prove(c, label + ":which", what=what, **S_detail(S))
                break


def S_detail(S):
    ops = [l[0] + ("!" + l[2] if l[2] else "") for l in S.log][-6:]
    return dict(ops=ops, op=(ops[-1] if ops else "built"))


# ----------------------------------------------------------------------------- C02 invariants
def invariants(E, m, S, label="cross-references"):
    bad = []
    for name in ("reactions", "metabolites", "genes", "groups"):
        dl = getattr(m, name)
        ids = [o.id for o in dl]
        if len(set(ids)) != len(ids):
            bad.append("%s: duplicate ids" % name)
        for i, o in enumerate(dl):
            if dl._dict.get(o.id) != i:
                bad.append("%s: index of %s wrong" % (name, o.id))
            if dl.get_by_id(o.id) is not o if o.id in dl._dict else True:
                bad.append("%s: lookup of %s is another object" % (name, o.id))
            if getattr(o, "_model", None) is not m:
                bad.append("%s %s does not belong to the model" % (name[:-1], o.id))
        if len(dl._dict) != len(dl):
            bad.append("%s: index size" % name)
    for r in m.reactions:
        for met, c in r._metabolites.items():
            if met.id not in m.metabolites or m.metabolites.get_by_id(met.id) is not met:
                bad.append("reaction %s lists a metabolite object that is not the model's %s" % (r.id, met.id))
            if r not in met._reaction:
                bad.append("reaction %s lists %s but not vice versa" % (r.id, met.id))
            if not isinstance(c, SymReal) and c == 0:
                bad.append("zero coefficient %s in %s" % (met.id, r.id))
        for g in r._genes:
            if g.id not in m.genes or m.genes.get_by_id(g.id) is not g:
                bad.append("reaction %s lists a gene object that is not the model's %s" % (r.id, g.id))
            if r not in g._reaction:
                bad.append("reaction %s lists gene %s but not vice versa" % (r.id, g.id))
        rule_genes = set(GPR.from_string(r.gene_reaction_rule).genes)
        if set(g.id for g in r._genes) != rule_genes:
            bad.append("genes of %s %s != genes of its rule %s" % (r.id, sorted(g.id for g in r._genes), sorted(rule_genes)))
        if r.gpr.body is not None and set(r.gpr.genes) != rule_genes:
            bad.append("gpr.genes of %s %s != genes in its rule text %s" % (r.id, sorted(r.gpr.genes), sorted(rule_genes)))
    # back references.  A detached reaction the user still holds (model None) may share metabolite / gene objects
    # with the model (cobra shares objects by reference, e.g. after `r += detached`); such a reaction is
    # tolerated as long as it really uses the object - it is the user's, not a dangling entry of the model.
    for met in m.metabolites:
        for r in met._reaction:
            if r._model is None and met in r._metabolites:
                continue
            if r.id not in m.reactions or m.reactions.get_by_id(r.id) is not r:
                bad.append("metabolite %s lists a reaction that is not in the model: %s" % (met.id, r.id))
            elif met not in r._metabolites:
                bad.append("metabolite %s lists %s but not vice versa" % (met.id, r.id))
    for g in m.genes:
        for r in g._reaction:
            if r._model is None and g in r._genes:
                continue
            if r.id not in m.reactions or m.reactions.get_by_id(r.id) is not r:
                bad.append("gene %s lists a reaction that is not in the model: %s" % (g.id, r.id))
            elif g not in r._genes:
                bad.append("gene %s lists %s but not vice versa" % (g.id, r.id))
    for grp in m.groups:
        for x in grp.members:
            dl = {"Reaction": m.reactions, "Metabolite": m.metabolites, "Gene": m.genes, "Group": m.groups}.get(type(x).__name__)
            if dl is None or x.id not in dl or dl.get_by_id(x.id) is not x:
                bad.append("group %s has a member that is not in the model: %s" % (grp.id, getattr(x, "id", x)))
    # symbolic zero coefficients must be impossible
    E.prove(not bad, label, problems=bad[:4], **S_detail(S))
    zs = []
    for r in m.reactions:
        for met, c in r._metabolites.items():
            if isinstance(c, SymReal):
                zs.append(E.neg(E.eq(c, 0)))
    if zs:
        E.prove(E.all_of(zs), label + ":no-zero-coefficient", **S_detail(S))


# ----------------------------------------------------------------------------- operations
DOC_EXC = (ValueError, KeyError, TypeError)


IDENT = lambda ref: None  # noqa: E731   (operation documented not to change the model's content)


def _try(S, name, f, exc=DOC_EXC, ref=None, atomic=True, **args):
    """run one operation; any exception it raises ends the operation (and, in a C03 block, the block).
    The properties checked here constrain the *state afterwards*, whatever the exception type.
    ref: closure applying the documented effect to the reference model (C02); None = no reference semantics."""
    try:
        out = f()
        ok = True
    except Exception as e:
        ok = False
        err = e
    if ok:
        S.log.append((name, args, None))
        R = getattr(S, "ref", None)
        if R is not None and R.valid:
            if ref is None:
                R.valid = False
            else:
                ref(R)          # outside the try: an error here is ours
        return out
    e = err
    if True:
        R = getattr(S, "ref", None)
        if R is not None and (not isinstance(e, exc) or not atomic):
            R.valid = False     # atomic=False: a multi-key call whose state after a failure the documentation leaves open
        S.log.append((name, args, type(e).__name__))
        if not isinstance(e, exc):
            S.undocumented = getattr(S, "undocumented", []) + [(name, type(e).__name__)]
        return None


def _rxn(E, m, name="target", pool=("R1", "DM_B")):
    only = E.notes.get("_only_rxn")        # harnesses that spend their depth on one reaction (c03_same_reaction)
    have = [r for r in pool if r in m.reactions and (only is None or r == only)]
    if not have:
        have = [r.id for r in m.reactions][:1]
    if not have:
        raise vsym.Abort("no reaction left")
    return m.reactions.get_by_id(have[E.choice(name, len(have), have)])


def op_lower_bound(E, m, S):
    r = _rxn(E, m)
    x = E.real(S.tag("x"), -B, B)
    _try(S, "lower_bound=", lambda: setattr(r, "lower_bound", x), r=r.id, ref=lambda R, i=r.id: R.set_bounds(i, lb=x))


def op_upper_bound(E, m, S):
    r = _rxn(E, m)
    x = E.real(S.tag("x"), -B, B)
    _try(S, "upper_bound=", lambda: setattr(r, "upper_bound", x), r=r.id, ref=lambda R, i=r.id: R.set_bounds(i, ub=x))


def op_bounds(E, m, S):
    r = _rxn(E, m)
    x, y = E.real(S.tag("x"), -B, B), E.real(S.tag("y"), -B, B)
    _try(S, "bounds=", lambda: setattr(r, "bounds", (x, y)), r=r.id, ref=lambda R, i=r.id: R.set_bounds(i, x, y))


def op_bounds_inf(E, m, S):
    r = _rxn(E, m)
    k = E.pick(S.tag("inf"), [(float("-inf"), float("inf")), (0.0, float("inf")), (float("-inf"), 0.0)])
    _try(S, "bounds=inf", lambda: setattr(r, "bounds", k), r=r.id, ref=lambda R, i=r.id: R.set_bounds(i, k[0], k[1]))


def op_knock_out(E, m, S):
    r = _rxn(E, m)
    _try(S, "Reaction.knock_out", r.knock_out, r=r.id, ref=lambda R, i=r.id: R.set_bounds(i, 0, 0))


def op_gene_knock_out(E, m, S):
    if not len(m.genes):
        return
    g = m.genes[E.choice(S.tag("gene"), min(2, len(m.genes)))]
    how = E.pick(S.tag("how"), ["Gene.knock_out", "knock_out_model_genes(id)", "knock_out_model_genes(unknown)"])
    if how == "Gene.knock_out":
        _try(S, how, g.knock_out, g=g.id)
    elif how.endswith("(id)"):
        _try(S, how, lambda: knock_out_model_genes(m, [g.id]), g=g.id)
    else:
        _try(S, how, lambda: knock_out_model_genes(m, ["nope"]))


def op_objective(E, m, S):
    r = _rxn(E, m, pool=("R1", "R2", "DM_B"))
    how = E.pick(S.tag("objective"), ["reaction", "id", "index", "dict", "Objective", "forward-only", "reverse-only", "bad-id", "empty-dict"])
    if how == "reaction":
        _try(S, "objective=reaction", lambda: setattr(m, "objective", r), ref=lambda R, i=r.id: R.set_objective({i: 1}), r=r.id)
    elif how == "id":
        _try(S, "objective=id", lambda: setattr(m, "objective", r.id), ref=lambda R, i=r.id: R.set_objective({i: 1}), r=r.id)
    elif how == "index":
        _try(S, "objective=index", lambda: setattr(m, "objective", m.reactions.index(r)),
             ref=lambda R, i=r.id: R.set_objective({i: 1}), r=r.id)
    elif how == "dict":
        x = E.real(S.tag("c"), -5, 5)
        other = m.reactions[0]
        want = {r.id: x, other.id: -1} if other is not r else {r.id: x}
        _try(S, "objective=dict", lambda: setattr(m, "objective", {r: x, other: -1} if other is not r else {r: x}),
             ref=lambda R: R.set_objective(want), r=r.id)
    elif how == "empty-dict":
        # no coefficients at all: the model optimises nothing from here on (direction kept)
        _try(S, "objective={}", lambda: setattr(m, "objective", {}), ref=lambda R: R.set_objective({}), r=r.id)
    elif how == "Objective":
        _try(S, "objective=Objective", lambda: setattr(m, "objective", m.problem.Objective(
            2.0 * r.flux_expression, direction="min")), r=r.id, ref=lambda R, i=r.id: R.set_objective({i: 2}, "min"))
    elif how == "forward-only":
        # an objective that is not c*(forward - reverse): only the forward variable
        S.asym_ok = getattr(S, "asym_ok", set()) | {r.id}
        _try(S, "objective=forward-only", lambda: setattr(m, "objective", m.problem.Objective(
            1.0 * r.forward_variable, direction="max")), r=r.id, ref=lambda R: (R.objective_unknown(), R.set_objective({}, "max")))
    elif how == "reverse-only":
        # e.g. "minimise uptake": a coefficient on the reverse variable alone (sixth seed round: code that looks at the
        # forward variable only to decide whether a reaction takes part in the objective)
        S.asym_ok = getattr(S, "asym_ok", set()) | {r.id}
        _try(S, "objective=reverse-only", lambda: setattr(m, "objective", m.problem.Objective(
            3.0 * r.reverse_variable, direction="min")), r=r.id, ref=lambda R: (R.objective_unknown(), R.set_objective({}, "min")))
    else:
        _try(S, "objective=bad-id", lambda: setattr(m, "objective", "nope"), ref=IDENT)


def op_objective_coefficient(E, m, S):
    r = _rxn(E, m, pool=("R1", "DM_B"))
    x = E.real(S.tag("c"), -5, 5)
    _try(S, "objective_coefficient=", lambda: setattr(r, "objective_coefficient", x),
         ref=lambda R, i=r.id: R.set_objective_coefficient(i, x), r=r.id)


def op_direction(E, m, S):
    d = E.pick(S.tag("direction"), ["min", "max", "maximize", "bogus"])
    _try(S, "objective_direction=", lambda: setattr(m, "objective_direction", d),
         ref=lambda R: R.set_objective(R.objective or {}, d[:3]) if R.objective is not None else setattr(R, "direction", d[:3]), d=d)


def op_add_metabolites(E, m, S):
    r = _rxn(E, m, pool=("R1",))
    key = E.pick(S.tag("key"), ["in-reaction", "in-model", "copy-of-model-met", "id", "new", "unknown-id"])
    combine = E.flag(S.tag("combine"))
    x = E.real(S.tag("x"), -4, 4)
    mets = list(r._metabolites)
    if key == "in-reaction":
        k = mets[0] if mets else None
    elif key == "in-model":
        rest = [mm for mm in m.metabolites if mm not in r._metabolites]
        k = rest[0] if rest else (mets[0] if mets else None)
    elif key == "copy-of-model-met":
        k = m.metabolites[0].copy() if len(m.metabolites) else None
    elif key == "id":
        k = m.metabolites[-1].id if len(m.metabolites) else None
    elif key == "new":
        k = Metabolite(S.tag("N"), compartment="c")
    else:
        k = "nope"
    if k is None:
        return
    kid = k if isinstance(k, str) else k.id
    _try(S, "add_metabolites", lambda: r.add_metabolites({k: x}, combine=combine), r=r.id, key=key, combine=combine,
         ref=lambda R, i=r.id: R.add_metabolites(i, kid, x, combine))


def op_subtract_metabolites(E, m, S):
    r = _rxn(E, m, pool=("R1",))
    how = E.pick(S.tag("what"), ["all", "one"])
    if how == "all":
        _try(S, "subtract_metabolites(all)", lambda: r.subtract_metabolites(r.metabolites), r=r.id,
             ref=lambda R, i=r.id: R.rxn[i]["mets"].clear())
    else:
        mets = list(r._metabolites)
        if not mets:
            return
        x = E.real(S.tag("x"), -4, 4)
        _try(S, "subtract_metabolites(one)", lambda: r.subtract_metabolites({mets[0]: x}), r=r.id,
             ref=lambda R, i=r.id, mid=mets[0].id: R.add_metabolites(i, mid, -x, True))


def op_imul(E, m, S):
    r = _rxn(E, m, pool=("R1",))
    k = E.pick(S.tag("factor"), [2, 0.5, -1, -4, 0])

    def f():
        rr = r
        rr *= k
    _try(S, "*=", f, r=r.id, k=k, ref=lambda R, i=r.id: R.scale(i, k))


def op_iadd(E, m, S):
    r = _rxn(E, m, pool=("R1",))
    other = E.pick(S.tag("other"), ["R2", "self", "detached"])
    if other == "R2" and "R2" in m.reactions:
        o = m.reactions.R2
    elif other == "self":
        o = r
    else:
        o = Reaction("OTH")
        o.add_metabolites({Metabolite("A", compartment="c"): -2, Metabolite("Z", compartment="c"): 1})
        o.gene_reaction_rule = "g9"

    def f():
        rr = r
        rr += o
    omets = {mm.id: c for mm, c in o._metabolites.items()}
    orule = "live" if (o is r or (o.id in m.reactions and m.reactions.get_by_id(o.id) is o)) else "g9"
    _try(S, "+=", f, r=r.id, other=other,
         ref=lambda R, i=r.id, oid=o.id: (R.shared.update(omets if orule != "live" else ()),
                                          R.combine(i, omets, (R.rxn[oid]["rule"] if orule == "live" else orule), 1)))


def op_isub(E, m, S):
    r = _rxn(E, m, pool=("R1",))
    if "R2" not in m.reactions:
        return
    o = m.reactions.R2

    def f():
        rr = r
        rr -= o
    omets = {mm.id: c for mm, c in o._metabolites.items()}
    _try(S, "-=", f, r=r.id, ref=lambda R, i=r.id: R.combine(i, omets, None, -1))


RULE_TREES = {"": None, "g1": "g1", "g7 or g1": ("or", "g7", "g1"), "(g2 and": None}     # malformed text => empty rule


def op_rule(E, m, S):
    r = _rxn(E, m, pool=("R1", "DM_B"))
    s = E.pick(S.tag("rule"), ["", "g1", "g7 or g1", "(g2 and"])
    how = E.pick(S.tag("via"), ["gene_reaction_rule", "gpr"])
    if how == "gpr":
        _try(S, "gpr=", lambda: setattr(r, "gpr", GPR.from_string(s)), r=r.id, rule=s, ref=lambda R, i=r.id: R.set_rule(i, RULE_TREES[s]))
    else:
        _try(S, "gene_reaction_rule=", lambda: setattr(r, "gene_reaction_rule", s), r=r.id, rule=s,
             ref=lambda R, i=r.id: R.set_rule(i, RULE_TREES[s]))


def op_add_reactions(E, m, S):
    kinds = ["new", "new-with-new-gene", "copy-of-R1", "existing-id", "uses-copy-of-met", "id-with-blank", "two-sharing-a-new-met-id"]
    gone = [r for r in (getattr(S, "removed", []) + getattr(S, "detached", [])) if r.id not in m.reactions]
    if gone:
        kinds.append("previously-removed")
    if E.notes.get("_lp_only"):
        # only where the obligation is "the LP is the model's problem" (C01): a list whose second reaction makes the call
        # raise (metabolite with an empty id).  What the raising call leaves in the cross references is the listed C02
        # finding (add_reactions is not atomic); the LP must still be the problem of whatever the model then contains
        kinds.append("second-has-invalid-metabolite")
    kind = E.pick(S.tag("kind"), kinds)
    if kind == "second-has-invalid-metabolite":
        ra, rb = Reaction(S.tag("NEWA"), lower_bound=0, upper_bound=5), Reaction(S.tag("NEWB"), lower_bound=-5, upper_bound=5)
        first = m.metabolites[0] if len(m.metabolites) else Metabolite("A", compartment="c")
        ra.add_metabolites({first: -1, Metabolite(S.tag("MS"), compartment="c"): 1})
        rb.add_metabolites({Metabolite("", compartment="c"): -2})
        # logged under its own name: the listed C01 finding (a reaction id the solver refuses) is keyed on "add_reactions!ValueError"
        _try(S, "add_reactions[second-refused]", lambda: m.add_reactions([ra, rb]), kind=kind)
        return
    if kind == "two-sharing-a-new-met-id":
        # one call, two reactions, each built with its own Metabolite object for the same id that is new to the model
        mid = S.tag("MS")
        ra, rb = Reaction(S.tag("NEWA"), lower_bound=0, upper_bound=5), Reaction(S.tag("NEWB"), lower_bound=-5, upper_bound=5)
        first = m.metabolites[0] if len(m.metabolites) else Metabolite("A", compartment="c")
        ra.add_metabolites({first: -1, Metabolite(mid, compartment="c"): 1})
        rb.add_metabolites({Metabolite(mid, compartment="c"): -2})

        def ref2(R):
            R.add_reaction(ra.id, {first.id: -1, mid: 1}, 0, 5)
            R.add_reaction(rb.id, {mid: -2}, -5, 5)
        _try(S, "add_reactions", lambda: m.add_reactions([ra, rb]), kind=kind, ref=ref2)
        return
    if kind == "previously-removed":
        r = gone[-1]        # also a reaction removed earlier inside the still open context
        _try(S, "add_reactions", lambda: m.add_reactions([r]), kind=kind)        # no reference: the object kept its own state
        return
    if kind in ("new", "new-with-new-gene", "uses-copy-of-met"):
        r = Reaction(S.tag("NEW"), lower_bound=E.real(S.tag("lb"), -B, 0), upper_bound=E.real(S.tag("ub"), 0, B))
        if kind == "uses-copy-of-met" and len(m.metabolites):
            a = m.metabolites[0].copy()
        elif len(m.metabolites):
            a = m.metabolites[0]
        else:
            a = Metabolite("A", compartment="c")
        r.add_metabolites({a: -E.real(S.tag("c"), 0.5, 3), Metabolite(S.tag("M"), compartment="c"): 1})
        if kind == "new-with-new-gene":
            r.gene_reaction_rule = "g1 and g9"
    elif kind == "copy-of-R1":
        if "R1" not in m.reactions:
            return
        r = m.reactions.R1.copy()
    elif kind == "id-with-blank":
        # the solver interface rejects variable names with blanks: add_reactions raises part-way
        r = Reaction("NEW X")
        r.add_metabolites({(m.metabolites[0] if len(m.metabolites) else Metabolite("A", compartment="c")): -1})
    else:
        r = Reaction(m.reactions[0].id if len(m.reactions) else "X")
        r.add_metabolites({Metabolite("Q", compartment="c"): 1})
    rmets = {mm.id: c for mm, c in r._metabolites.items()}
    rrule = {"new-with-new-gene": ("and", "g1", "g9")}.get(kind)
    if kind == "copy-of-R1":
        _try(S, "add_reactions", lambda: m.add_reactions([r]), kind=kind, ref=IDENT)       # same id: ignored
    elif kind == "id-with-blank":
        _try(S, "add_reactions", lambda: m.add_reactions([r]), kind=kind)
    else:
        _try(S, "add_reactions", lambda: m.add_reactions([r]), kind=kind,
             ref=lambda R: R.add_reaction(r.id, rmets, r.lower_bound, r.upper_bound, rrule))


def op_remove_reactions(E, m, S):
    r = _rxn(E, m, pool=("R1", "DM_B", "R3"))
    arg = E.pick(S.tag("arg"), ["object", "id", "unknown", "two-in-one-call"])
    orphans = E.flag(S.tag("remove_orphans"))
    via = E.pick(S.tag("via"), ["model", "remove_from_model"])
    if arg == "two-in-one-call":
        # one call removing two reactions (the chosen one first, then another one with its own genes / objective share)
        others = [x for x in m.reactions if x is not r and x.id in ("DM_B", "R2", "R1")]
        if not others:
            return
        o = others[0]

        def ref2(R, i=r.id, j=o.id):
            R.remove_reaction(i, orphans)
            R.remove_reaction(j, orphans)
        _try(S, "remove_reactions", lambda: m.remove_reactions([r, o.id], remove_orphans=orphans), r=r.id, other=o.id, arg=arg,
             orphans=orphans, ref=ref2)
        for x in (r, o):
            if x.id not in m.reactions:
                S.detached = getattr(S, "detached", []) + [x]
                if not m._contexts:
                    S.removed = getattr(S, "removed", []) + [x]
        return
    if via == "remove_from_model":
        _try(S, "Reaction.remove_from_model", lambda: r.remove_from_model(remove_orphans=orphans), r=r.id, orphans=orphans,
             ref=lambda R, i=r.id: R.remove_reaction(i, orphans))
    else:
        a = {"object": r, "id": r.id, "unknown": "nope"}[arg]
        _try(S, "remove_reactions", lambda: m.remove_reactions([a], remove_orphans=orphans), r=r.id, arg=arg, orphans=orphans,
             ref=(IDENT if arg == "unknown" else (lambda R, i=r.id: R.remove_reaction(i, orphans))))
    if r.id not in m.reactions and not m._contexts:
        S.removed = getattr(S, "removed", []) + [r]
    if r.id not in m.reactions:
        S.detached = getattr(S, "detached", []) + [r]      # also when removed inside a context (comes back on exit)


def op_detached_edit(E, m, S):
    """the user keeps a removed reaction and edits it while it is outside the model; it may come back through
    add_reactions or through the exit of the context it was removed in"""
    rs = [r for r in getattr(S, "detached", []) if r.id not in m.reactions]
    if not rs:
        return
    r = rs[-1]
    how = E.pick(S.tag("edit"), ["bounds", "knock_out", "negate"])
    R = getattr(S, "ref", None)
    if R is not None:
        R.valid = False         # no reference clause for objects outside the model
    if how == "bounds":
        x = E.real(S.tag("x"), -B, 0)
        y = E.real(S.tag("y"), 0, B)
        r.bounds = (x, y)
    elif how == "knock_out":
        r.knock_out()
    else:
        r *= -1
    S.log.append(("detached:" + how, {}, None))


def op_add_model_metabolites(E, m, S):
    kind = E.pick(S.tag("kind"), ["new", "existing-id", "empty-id", "new-then-empty-id"])
    if kind == "new-then-empty-id":
        # a list whose second item is refused: the call raises and must not have added the first (validation comes first)
        first = Metabolite(S.tag("MM"), compartment="c")
        _try(S, "add_metabolites(model)", lambda: m.add_metabolites([first, Metabolite("")]), kind=kind,
             ref=lambda R: (R.mets.append(first.id) if first.id not in R.mets else None))
        return
    met = {"new": Metabolite(S.tag("MM"), compartment="c"), "existing-id": Metabolite(m.metabolites[0].id if len(m.metabolites) else "A"),
           "empty-id": Metabolite("")}[kind]
    _try(S, "add_metabolites(model)", lambda: m.add_metabolites([met]), kind=kind,
         ref=lambda R: (R.mets.append(met.id) if met.id not in R.mets else None))


def op_remove_metabolites(E, m, S):
    if not len(m.metabolites):
        return
    cands = list(m.metabolites[:2]) + ([m.metabolites.LONE] if "LONE" in m.metabolites else [])
    met = cands[E.choice(S.tag("met"), len(cands))]
    destructive = E.flag(S.tag("destructive"))
    via = E.pick(S.tag("via"), ["model", "remove_from_model"])
    if via == "model":
        _try(S, "remove_metabolites", lambda: m.remove_metabolites([met], destructive=destructive), met=met.id, destructive=destructive,
             ref=lambda R, i=met.id: R.remove_metabolite(i, destructive))
    else:
        _try(S, "Metabolite.remove_from_model", lambda: met.remove_from_model(destructive=destructive), met=met.id,
             destructive=destructive, ref=lambda R, i=met.id: R.remove_metabolite(i, destructive))


def op_add_boundary(E, m, S):
    if not len(m.metabolites):
        return
    met = m.metabolites[-1]
    typ = E.pick(S.tag("type"), ["exchange", "demand", "sink", "custom", "custom-no-id", "existing-id"])
    lb, ub = E.real(S.tag("lb"), -B, 0), E.real(S.tag("ub"), 0, B)
    if typ == "custom":
        _try(S, "add_boundary(custom)", lambda: m.add_boundary(met, type="my", reaction_id=S.tag("BND"), lb=lb, ub=ub))
    elif typ == "custom-no-id":
        _try(S, "add_boundary(custom-no-id)", lambda: m.add_boundary(met, type="my", lb=lb, ub=ub))
    elif typ == "existing-id":
        _try(S, "add_boundary(existing-id)", lambda: m.add_boundary(met, type="demand", reaction_id=m.reactions[0].id))
    else:
        _try(S, "add_boundary(%s)" % typ, lambda: m.add_boundary(met, type=typ, lb=lb, ub=ub), exc=DOC_EXC + (RuntimeError,))


def op_cons_vars(E, m, S):
    what = E.pick(S.tag("what"), ["add", "add-duplicate", "add-remove"])
    vn, cn = S.tag("uservar"), S.tag("usercon")
    v = m.problem.Variable(vn, lb=0, ub=E.real(S.tag("ub"), 0, 50))
    c = m.problem.Constraint(m.reactions[0].flux_expression + v, lb=0, ub=E.real(S.tag("cub"), 0, 50), name=cn)

    def add():
        m.add_cons_vars([v, c])
        m.solver.update()
        S.user_vars.add(vn)
        S.user_cons.add(cn)
    if what == "add":
        _try(S, "add_cons_vars", add, ref=IDENT)
    elif what == "add-remove":
        _try(S, "add_cons_vars", add, ref=IDENT)

        def rem():
            m.remove_cons_vars([c, v])
            m.solver.update()
            S.user_vars.discard(vn)
            S.user_cons.discard(cn)
        _try(S, "remove_cons_vars", rem, ref=IDENT)
    else:
        _try(S, "add_cons_vars", add, ref=IDENT)
        dup = m.problem.Variable(vn, lb=0, ub=1)

        def adddup():
            m.add_cons_vars([dup])
            m.solver.update()
        _try(S, "add_cons_vars(duplicate)", adddup, exc=DOC_EXC + (Exception,))


def op_remove_genes(E, m, S):
    if not len(m.genes):
        return
    g = m.genes[E.choice(S.tag("gene"), min(3, len(m.genes)))]
    rr = E.flag(S.tag("remove_reactions"))
    _try(S, "remove_genes", lambda: remove_genes(m, [g], remove_reactions=rr), g=g.id, remove_reactions=rr,
         ref=lambda R, i=g.id: R.remove_gene(i, rr))


def op_rename_genes(E, m, S):
    if not len(m.genes):
        return
    g = m.genes[0]
    to = E.pick(S.tag("to"), ["new", "existing", "two-onto-one-new", "unused-gene-to-new"])
    if to == "unused-gene-to-new":
        if "g_free" not in m.genes:
            return
        _try(S, "rename_genes", lambda: rename_genes(m, {"g_free": "g_free_renamed"}), g="g_free", to=to,
             ref=lambda R: R.rename_gene("g_free", "g_free_renamed"))
        return
    if to == "two-onto-one-new":
        if len(m.genes) < 2:
            return
        # one call maps two genes onto the same id that is new to the model (merged by the second entry)
        d = {m.genes[0].id: "g_new", m.genes[1].id: "g_new"}
        _try(S, "rename_genes", lambda: rename_genes(m, d), g=g.id, to=to)
        return
    tgt = "g_new" if to == "new" or len(m.genes) < 2 else m.genes[1].id
    _try(S, "rename_genes", lambda: rename_genes(m, {g.id: tgt}), g=g.id, to=to,
         ref=(lambda R, i=g.id: R.rename_gene(i, tgt)) if to == "new" or len(m.genes) < 2 else None)


def op_medium(E, m, S):
    what = E.pick(S.tag("medium"), ["{}", "{EX_A:x}"])
    if what == "{}":
        _try(S, "medium={}", lambda: setattr(m, "medium", {}), atomic=False)
    elif "EX_A" in m.reactions:
        x = E.real(S.tag("x"), 0, 20)
        _try(S, "medium={EX_A:x}", lambda: setattr(m, "medium", {"EX_A": x}), atomic=False)


def op_rename_reaction(E, m, S):
    r = _rxn(E, m, pool=("R1", "DM_B"))
    to = E.pick(S.tag("to"), ["new", "existing", "non-string"])
    val = {"new": S.tag("REN"), "existing": m.reactions[0].id, "non-string": 7}[to]
    if r.id in getattr(S, "asym_ok", ()) and isinstance(val, str):
        S.asym_ok = S.asym_ok | {val}
    _try(S, "reaction.id=", lambda: setattr(r, "id", val), r=r.id, to=to,
         ref=(lambda R, i=r.id: R.rename_reaction(i, val)) if to == "new" else IDENT)


def op_rename_metabolite(E, m, S):
    if not len(m.metabolites):
        return
    met = m.metabolites[0]
    to = E.pick(S.tag("to"), ["new", "existing"])
    val = S.tag("MREN") if to == "new" or len(m.metabolites) < 2 else m.metabolites[1].id
    _try(S, "metabolite.id=", lambda: setattr(met, "id", val), met=met.id, to=to,
         ref=(lambda R, i=met.id: R.rename_metabolite(i, val)) if (to == "new" or len(m.metabolites) < 2) else IDENT)


def op_build_from_string(E, m, S):
    r = _rxn(E, m, pool=("R1",))
    # "A + x 2 B --> C": valid arrow, malformed coefficient in a later term - raises after the old stoichiometry was cleared
    # and the first term added (a multi-step call whose state after the failure the documentation leaves open; inside a
    # context everything done so far must still be undone)
    s = E.pick(S.tag("string"), ["A + 2 B --> C", "A <=> ", "[c]: A --> B", "A B", "A + x 2 B --> C"])
    _try(S, "build_reaction_from_string", lambda: r.build_reaction_from_string(s, verbose=False), r=r.id, s=s,
         atomic=(s != "A + x 2 B --> C"))


def op_groups(E, m, S):
    what = E.pick(S.tag("what"), ["add", "add-existing", "remove", "remove-unknown"])
    if what == "add":
        g = Group(S.tag("GRP"), members=[m.reactions[0]] if len(m.reactions) else [])
        _try(S, "add_groups", lambda: m.add_groups([g]))
    elif what == "add-existing" and len(m.groups):
        _try(S, "add_groups(existing)", lambda: m.add_groups([Group(m.groups[0].id)]))
    elif what == "remove" and len(m.groups):
        _try(S, "remove_groups", lambda: m.remove_groups([m.groups[0]]))
    else:
        _try(S, "remove_groups(unknown)", lambda: m.remove_groups([Group("nope")]))


def op_repair(E, m, S):
    _try(S, "repair", m.repair, ref=IDENT)


def op_copy(E, m, S):
    how = E.pick(S.tag("how"), ["copy", "deepcopy", "pickle"])
    if how == "copy":
        new = m.copy()
    elif how == "deepcopy":
        new = _copy.deepcopy(m)
    else:
        new = pickle.loads(pickle.dumps(m))
    S.log.append((how, {}, None))
    return new


def op_solver_switch(E, m, S):
    """model.solver = <another interface> (the contract stub's twin on symbolic paths, glpk <-> glpk_exact on replays), given
    as interface module, as name, or as the interface the model already has (documented no-op)"""
    how = E.pick(S.tag("as"), ["module", "name", "same-interface"])
    if E.symbolic:
        from . import symlp
        cur_twin = m.problem is symlp.TWIN
        other = symlp if cur_twin else symlp.TWIN
        name = "symlp" if cur_twin else "symlp_twin"
    else:
        import optlang
        cur_exact = "exact" in m.problem.__name__
        other = optlang.glpk_interface if cur_exact else optlang.glpk_exact_interface
        name = "glpk" if cur_exact else "glpk_exact"
    target = {"module": other, "name": name, "same-interface": m.problem}[how]
    _try(S, "solver=", lambda: setattr(m, "solver", target), ref=IDENT, how=how)


def op_merge(E, m, S):
    other = Model("other")
    a, z = Metabolite("A", compartment="c"), Metabolite("Z", compartment="c")
    r1 = Reaction("R1", lower_bound=0, upper_bound=5)
    r1.add_metabolites({a: -1, z: 1})
    r9 = Reaction("R9", lower_bound=-1, upper_bound=E.real(S.tag("ub"), 0, B))
    # Z is used by the new reaction too, or only by the duplicate-id reaction that merge ignores
    r9.add_metabolites({(z if E.flag(S.tag("r9_uses_Z")) else a): -1})
    other.add_reactions([r1, r9])
    other.objective = "R9"
    prefix = E.pick(S.tag("prefix"), [None, "x_"])
    obj = E.pick(S.tag("objective"), ["left", "right", "sum"])
    inplace = E.flag(S.tag("inplace"))
    res = _try(S, "merge", lambda: m.merge(other, prefix_existing=prefix, inplace=inplace, objective=obj), prefix=prefix,
               objective=obj, inplace=inplace)
    return res if (res is not None and not inplace) else None


def op_pfba_helpers(E, m, S):
    from cobra.flux_analysis.parsimonious import add_pfba
    from cobra.util.solver import fix_objective_as_constraint
    what = E.pick(S.tag("helper"), ["add_pfba", "fix_objective_as_constraint"])
    n0 = set(lp_snapshot(m)["constraints"])
    if what == "add_pfba":
        _try(S, "add_pfba", lambda: add_pfba(m), exc=DOC_EXC)
    else:
        _try(S, "fix_objective_as_constraint", lambda: fix_objective_as_constraint(m), exc=DOC_EXC)
    new = set(lp_snapshot(m)["constraints"]) - n0
    S.user_cons |= new        # documented additions of the helper


def op_fix_objective(E, m, S):
    from cobra.util.solver import fix_objective_as_constraint
    if any(vsym.is_sym(c) for r in m.reactions for c in r._metabolites.values()):
        return      # the helper optimises: symbolic stoichiometric coefficients would make that LP non-linear
    n0 = set(lp_snapshot(m)["constraints"])
    frac = E.pick(S.tag("fraction"), [1, 0.5])
    _try(S, "fix_objective_as_constraint", lambda: fix_objective_as_constraint(m, fraction=frac), exc=DOC_EXC, frac=frac)
    after = set(lp_snapshot(m)["constraints"])
    S.user_cons = (S.user_cons & after) | (after - n0)      # the helper replaces an earlier constraint of the same name


OPS = {
    # name: (function, reversible per docstring/@resettable (C03 alphabet), in the sub-alphabet)
    "lower_bound": (op_lower_bound, True, True),
    "upper_bound": (op_upper_bound, True, True),
    "bounds": (op_bounds, True, True),
    "bounds_inf": (op_bounds_inf, True, False),
    "knock_out": (op_knock_out, True, True),
    "gene_knock_out": (op_gene_knock_out, True, False),
    "objective": (op_objective, True, False),
    "objective_coefficient": (op_objective_coefficient, True, False),
    "direction": (op_direction, True, False),
    "add_metabolites": (op_add_metabolites, True, True),
    "subtract_metabolites": (op_subtract_metabolites, True, True),
    "imul": (op_imul, True, True),
    "iadd": (op_iadd, True, True),
    "isub": (op_isub, True, False),
    "rule": (op_rule, True, False),
    "add_reactions": (op_add_reactions, True, True),
    "remove_reactions": (op_remove_reactions, True, True),
    "add_model_metabolites": (op_add_model_metabolites, True, False),
    "remove_metabolites": (op_remove_metabolites, True, False),
    "add_boundary": (op_add_boundary, True, False),
    "cons_vars": (op_cons_vars, True, False),
    "remove_genes": (op_remove_genes, True, False),
    "rename_genes": (op_rename_genes, True, False),
    "medium": (op_medium, True, False),
    "build_from_string": (op_build_from_string, True, False),
    "merge": (op_merge, True, False),
    "rename_reaction": (op_rename_reaction, False, True),
    "rename_metabolite": (op_rename_metabolite, False, False),
    "groups": (op_groups, False, False),
    "repair": (op_repair, False, False),
    "copy": (op_copy, False, False),
    "detached_edit": (op_detached_edit, False, False),
    "fix_objective": (op_fix_objective, True, False),
    "solver_switch": (op_solver_switch, True, False),
}
SUB = [k for k, v in OPS.items() if v[2]]
REVERSIBLE = [k for k, v in OPS.items() if v[1]]
