"""./check entry point"""
import argparse
import importlib
import os
import sys

ROOT = os.path.dirname(os.path.dirname(os.path.abspath(__file__)))
sys.path.insert(0, ROOT)


def main():
    ap = argparse.ArgumentParser()
    ap.add_argument("pid")
    ap.add_argument("--tier", default=os.environ.get("VERIF_TIER", "quick"), choices=["quick", "thorough"])
    ap.add_argument("--replay")
    ap.add_argument("--only")
    a = ap.parse_args()
    seed = int(os.environ.get("VERIF_SEED", "0") or 0)
    if "VERIF_XCHECK" not in os.environ and not a.replay:
        # solver cross-check rate (vsym.SymPath._xcheck): every n-th deciding `unsat`
        from vlib import vsym
        vsym.XCHECK = 500 if a.tier == "quick" else 100
    mod = importlib.import_module("checks.%s" % a.pid.lower())
    if hasattr(mod, "main"):
        sys.exit(mod.main(a.tier, seed, a))
    from vlib import runner
    if a.replay:
        sys.exit(runner.replay_file(a.replay, mod.HARNESSES))
    code = runner.run_check(mod.PID, a.tier, mod.HARNESSES, seed=seed,
                            only=a.only.split(",") if a.only else None,
                            assumptions=getattr(mod, "ASSUMPTIONS", ()),
                            explanation=getattr(mod, "EXPLANATION", ""))
    sys.exit(code)


if __name__ == "__main__":
    try:
        main()
    except SystemExit:
        raise
    except BaseException:      # a crash of the machinery is never a verdict: exit 2, not python's default 1
        import traceback
        traceback.print_exc()
        print("HARNESS-ERROR (exit 2) uncaught exception in the check itself")
        sys.exit(2)
