"""fakesbml - a pure-Python stand-in for the part of the libsbml document object model that cobra/io/sbml.py uses.

libsbml is C++ behind SWIG: every setter type-checks doubles and strings, so no symbolic value survives a call.  To let the
solver quantify over stoichiometric coefficients, bounds and objective coefficients *through the real _model_to_sbml and
_sbml_to_model code*, the name ``libsbml`` in ``cobra.io.sbml`` is rebound to this module on symbolic paths.  It implements the
documented behaviour of the calls cobrapy makes, as observed on libsbml 5.20 (probe recorded in DESIGN.md 10.5): identifiers that
are not valid SIds are rejected with LIBSBML_INVALID_ATTRIBUTE_VALUE and stay unset, unset strings read as '', unset numbers as
nan, an unset charge as 0, addCVTerm needs a metaid and merges resources of equal qualifiers, setNotes rejects ill-formed XML,
infix gene associations parse with 'and' binding tighter than 'or' and flatten nested equal operators, a reference to an unknown
gene product is an error, the groups plug-in exists only once the package is enabled.  writeSBMLToString / readSBMLFromString
exchange an opaque token for a deep copy of the document: the XML text layer (number formatting to 17 significant digits,
escaping) is outside the claim and is exercised on the witness replays, which run the same harness on the real libsbml.

Anything not modelled raises ``Concretized`` so that the path falls back to its witness on the real library; it is never
silently accepted.
"""
import copy as _copy
import re

import libsbml as _real

from . import vsym

# constants are the real ones (QUALIFIER_TYPES etc. were built from them when cobra.io.sbml was imported)
for _n in dir(_real):
    if _n.isupper() and isinstance(getattr(_real, _n), int):
        globals()[_n] = getattr(_real, _n)
LIBSBML_OPERATION_SUCCESS = _real.LIBSBML_OPERATION_SUCCESS
OK = LIBSBML_OPERATION_SUCCESS
INVALID = _real.LIBSBML_INVALID_ATTRIBUTE_VALUE
UNEXPECTED = _real.LIBSBML_UNEXPECTED_ATTRIBUTE
INVALID_OBJECT = _real.LIBSBML_INVALID_OBJECT
OPERATION_FAILED = _real.LIBSBML_OPERATION_FAILED
_SID = re.compile(r"^[A-Za-z_][A-Za-z0-9_]*$")
_XMLID = re.compile(r"^[A-Za-z_:][A-Za-z0-9_:.\-]*$")
_FORMULA = re.compile(r"^([A-Z][a-z]*[0-9]*)+$")
_SBO = re.compile(r"^SBO:\d{7}$")
NAN = float("nan")


def OperationReturnValue_toString(v):
    return _real.OperationReturnValue_toString(v)


class _NM(object):
    """attribute access to anything not modelled"""

    def __getattr__(self, name):
        if name.startswith("__"):
            raise AttributeError(name)
        raise vsym.Concretized("libsbml API not modelled by the stand-in: %s.%s" % (type(self).__name__, name))


def _str_arg(v, what):
    if not isinstance(v, str):
        raise TypeError("invalid null reference in method '%s', argument 2 of type 'std::string const &'" % what)
    return v


def _num_arg(v, what):
    if isinstance(v, (vsym.SymReal, vsym.SymInt)) or (isinstance(v, (int, float)) and not isinstance(v, bool)):
        return v
    if isinstance(v, bool):
        return float(v)
    try:
        import numpy as np
        if isinstance(v, (np.floating, np.integer)):
            return v.item()
    except ImportError:
        pass
    raise TypeError("in method '%s', argument 2 of type 'double'" % what)


class SyntaxChecker(object):
    @staticmethod
    def isValidSBMLSId(s):
        return isinstance(s, str) and bool(_SID.match(s))


class CVTerm(_NM):
    def __init__(self):
        self.qtype = None
        self.bq = None
        self.mq = None
        self.resources = []

    def setQualifierType(self, t):
        self.qtype = t
        return OK

    def setBiologicalQualifierType(self, q):
        self.bq = q
        return OK

    def setModelQualifierType(self, q):
        self.mq = q
        return OK

    def addResource(self, uri):
        self.resources.append(_str_arg(uri, "CVTerm_addResource"))
        return OK

    def getNumResources(self):
        return len(self.resources)

    def getResourceURI(self, k):
        return self.resources[k]

    def _key(self):
        return (self.qtype, self.bq, self.mq)


class SBase(_NM):
    TYPECODE = -1
    LABEL = "SBase"

    def __init__(self):
        self._id = ""
        self._metaid = ""
        self._name = ""
        self._sbo = None
        self._notes = ""
        self._cv = []
        self._plugins = {}

    # identifiers -------------------------------------------------------------------------------------------
    def setId(self, v):
        v = _str_arg(v, "%s_setId" % self.LABEL)
        if not _SID.match(v):
            return INVALID
        self._id = v
        return OK

    def getId(self):
        return self._id

    def getIdAttribute(self):
        return self._id

    def isSetId(self):
        return self._id != ""

    def setMetaId(self, v):
        v = _str_arg(v, "%s_setMetaId" % self.LABEL)
        if not _XMLID.match(v):
            return INVALID
        self._metaid = v
        return OK

    def getMetaId(self):
        return self._metaid

    def isSetMetaId(self):
        return self._metaid != ""

    def setName(self, v):
        self._name = _str_arg(v, "%s_setName" % self.LABEL)
        return OK

    def getName(self):
        return self._name

    name = property(lambda self: self._name)
    id = property(lambda self: self._id)

    # SBO, notes, annotation --------------------------------------------------------------------------------
    def setSBOTerm(self, v):
        if isinstance(v, int) and not isinstance(v, bool):
            v = "SBO:%07d" % v
        v = _str_arg(v, "%s_setSBOTerm" % self.LABEL)
        if not _SBO.match(v):
            return INVALID
        self._sbo = v
        return OK

    def isSetSBOTerm(self):
        return self._sbo is not None

    def getSBOTermID(self):
        return self._sbo or ""

    def setNotes(self, v):
        v = _str_arg(v, "%s_setNotes" % self.LABEL)
        # ill-formed XML is rejected (LIBSBML_OPERATION_FAILED) and nothing is stored
        body = re.sub(r"<[^<>]*>", "", v)
        if "<" in body or ">" in body or re.search(r"&(?!(amp|lt|gt|quot|apos|#\d+|#x[0-9A-Fa-f]+);)", body):
            return OPERATION_FAILED
        self._notes = v
        return OK

    def getNotesString(self):
        if not self._notes:
            return ""
        return "<notes>\n  " + self._notes + "\n</notes>"

    def addCVTerm(self, cv):
        if not self._metaid:
            return UNEXPECTED
        if not cv.resources:
            return INVALID_OBJECT
        for have in self._cv:
            if have._key() == cv._key():
                have.resources.extend(r for r in cv.resources if r not in have.resources)
                return OK
        c = CVTerm()
        c.qtype, c.bq, c.mq, c.resources = cv.qtype, cv.bq, cv.mq, list(cv.resources)
        self._cv.append(c)
        return OK

    def getCVTerms(self):
        return list(self._cv)

    def getPlugin(self, key):
        if isinstance(key, int):
            ps = list(self._plugins.values())
            return ps[key] if 0 <= key < len(ps) else None
        return self._plugins.get(key)

    def getNumPlugins(self):
        return len(self._plugins)

    def getTypeCode(self):
        return self.TYPECODE

    def __str__(self):
        return "<%s %s>" % (self.LABEL, self._id)

    __repr__ = __str__


class _Plugin(_NM):
    def __init__(self, name, version):
        self._pname, self._pversion = name, version

    def getPackageName(self):
        return self._pname

    def getPackageVersion(self):
        return self._pversion


# ------------------------------------------------------------------------------------------------ core
class SBMLNamespaces(_NM):
    def __init__(self, level=3, version=1):
        self.level, self.version = level, version
        self.packages = {}

    def addPackageNamespace(self, name, version):
        self.packages[name] = version
        return OK


class Unit(_NM):
    def __init__(self):
        self.kind = self.exponent = self.scale = self.multiplier = None

    def setKind(self, v):
        self.kind = v
        return OK

    def setExponent(self, v):
        self.exponent = v
        return OK

    def setScale(self, v):
        self.scale = v
        return OK

    def setMultiplier(self, v):
        self.multiplier = v
        return OK


class UnitDefinition(SBase):
    LABEL = "UnitDefinition"

    def __init__(self):
        SBase.__init__(self)
        self.units = []

    def createUnit(self):
        u = Unit()
        self.units.append(u)
        return u


class Parameter(SBase):
    LABEL = "Parameter"

    def __init__(self):
        SBase.__init__(self)
        self._value = NAN
        self._constant = True
        self._units = ""

    def setValue(self, v):
        self._value = _num_arg(v, "Parameter_setValue")
        return OK

    def getValue(self):
        return self._value

    def setConstant(self, v):
        self._constant = bool(v)
        return OK

    def getConstant(self):
        return self._constant

    def setUnits(self, v):
        self._units = _str_arg(v, "Parameter_setUnits")
        return OK


class Compartment(SBase):
    LABEL = "Compartment"
    TYPECODE = _real.SBML_COMPARTMENT

    def setConstant(self, v):
        self._constant = bool(v)
        return OK


class _FbcSpecies(_Plugin):
    def __init__(self):
        _Plugin.__init__(self, "fbc", 2)
        self._charge = None
        self._formula = ""

    def setCharge(self, v):
        if isinstance(v, (vsym.SymReal, vsym.SymInt)):
            raise vsym.Concretized("symbolic charge")
        if isinstance(v, bool) or not isinstance(v, (int, float)):
            raise TypeError("in method 'FbcSpeciesPlugin_setCharge', argument 2 of type 'int'")
        self._charge = int(v)
        return OK

    def getCharge(self):
        return 0 if self._charge is None else self._charge

    def isSetCharge(self):
        return self._charge is not None

    def setChemicalFormula(self, v):
        v = _str_arg(v, "FbcSpeciesPlugin_setChemicalFormula")
        if v == "":
            return INVALID
        self._formula = v
        return OK if _FORMULA.match(v) else INVALID

    def getChemicalFormula(self):
        return self._formula


class Species(SBase):
    LABEL = "Species"
    TYPECODE = _real.SBML_SPECIES

    def __init__(self):
        SBase.__init__(self)
        self._compartment = ""
        self._boundary = False
        self._plugins["fbc"] = _FbcSpecies()

    def setConstant(self, v):
        return OK

    def setBoundaryCondition(self, v):
        self._boundary = bool(v)
        return OK

    def getBoundaryCondition(self):
        return self._boundary

    def setHasOnlySubstanceUnits(self, v):
        return OK

    def setCompartment(self, v):
        v = _str_arg(v, "Species_setCompartment")
        if v != "" and not _SID.match(v):
            return INVALID
        self._compartment = v
        return OK

    def getCompartment(self):
        return self._compartment

    def isSetCharge(self):
        return False


class SpeciesReference(SBase):
    LABEL = "SpeciesReference"

    def __init__(self):
        SBase.__init__(self)
        self._species = ""
        self._stoich = NAN

    def setSpecies(self, v):
        v = _str_arg(v, "SimpleSpeciesReference_setSpecies")
        if not _SID.match(v):
            return INVALID
        self._species = v
        return OK

    def getSpecies(self):
        return self._species

    def setStoichiometry(self, v):
        self._stoich = _num_arg(v, "SpeciesReference_setStoichiometry")
        return OK

    def getStoichiometry(self):
        return self._stoich

    def setConstant(self, v):
        return OK


class FbcAssociation(_NM):
    def __init__(self, kind, children=None, gene=None):
        self.kind, self.children, self.gene = kind, children or [], gene

    def isFbcOr(self):
        return self.kind == "or"

    def isFbcAnd(self):
        return self.kind == "and"

    def isGeneProductRef(self):
        return self.kind == "ref"

    def getListOfAssociations(self):
        return list(self.children)

    def getGeneProduct(self):
        return self.gene


def _parse_infix(text, known):
    """libsbml's FbcAssociation.parseFbcInfixAssociation: 'and' binds tighter than 'or' (the text is rewritten to * and + and
    handed to the L3 formula parser), nested equal operators are flattened, an id that is no gene product is an error"""
    toks = re.findall(r"\(|\)|[^\s()]+", text)
    pos = [0]

    def peek():
        return toks[pos[0]] if pos[0] < len(toks) else None

    def take():
        t = peek()
        pos[0] += 1
        return t

    def atom():
        t = take()
        if t is None:
            raise ValueError("unexpected end")
        if t == "(":
            e = expr()
            if take() != ")":
                raise ValueError("missing )")
            return e
        if t == ")" or t.lower() in ("and", "or"):
            raise ValueError("unexpected %s" % t)
        if not _SID.match(t) or (known is not None and t not in known):
            raise KeyError(t)
        return FbcAssociation("ref", gene=t)

    def chain(sub, word):
        first = sub()
        items = [first]
        while peek() is not None and peek().lower() == word:
            take()
            items.append(sub())
        if len(items) == 1:
            return first
        flat = []
        for it in items:
            if it.kind == word:
                flat.extend(it.children)
            else:
                flat.append(it)
        return FbcAssociation(word, flat)

    def term():
        return chain(atom, "and")

    def expr():
        return chain(term, "or")

    e = expr()
    if peek() is not None:
        raise ValueError("trailing tokens")
    return e


class GeneProductAssociation(SBase):
    LABEL = "GeneProductAssociation"

    def __init__(self, model=None):
        SBase.__init__(self)
        self._model = model
        self._assoc = None

    def setAssociation(self, text, using_id=False, add_missing=True):
        text = _str_arg(text, "GeneProductAssociation_setAssociation")
        known = None
        if self._model is not None and not add_missing:
            fbc = self._model.getPlugin("fbc")
            known = set((g._id if using_id else g._label) for g in fbc._genes)
        try:
            self._assoc = _parse_infix(text, known)
        except (KeyError, ValueError):
            self._assoc = None
            return INVALID_OBJECT
        return OK

    def getAssociation(self):
        return self._assoc


class _FbcReaction(_Plugin):
    def __init__(self, model):
        _Plugin.__init__(self, "fbc", 2)
        self._model = model
        self._lb = ""
        self._ub = ""
        self._gpa = None

    def setLowerFluxBound(self, v):
        v = _str_arg(v, "FbcReactionPlugin_setLowerFluxBound")
        if not _SID.match(v):
            return INVALID
        self._lb = v
        return OK

    def setUpperFluxBound(self, v):
        v = _str_arg(v, "FbcReactionPlugin_setUpperFluxBound")
        if not _SID.match(v):
            return INVALID
        self._ub = v
        return OK

    def getLowerFluxBound(self):
        return self._lb

    def getUpperFluxBound(self):
        return self._ub

    def createGeneProductAssociation(self):
        self._gpa = GeneProductAssociation(self._model)
        return self._gpa

    def getGeneProductAssociation(self):
        return self._gpa


class Reaction(SBase):
    LABEL = "Reaction"
    TYPECODE = _real.SBML_REACTION

    def __init__(self, model):
        SBase.__init__(self)
        self._reactants = []
        self._products = []
        self._plugins["fbc"] = _FbcReaction(model)

    def setFast(self, v):
        return OK

    def setReversible(self, v):
        self._reversible = v          # a bool in the real library; never read back by cobrapy
        return OK

    def createReactant(self):
        s = SpeciesReference()
        self._reactants.append(s)
        return s

    def createProduct(self):
        s = SpeciesReference()
        self._products.append(s)
        return s

    def getListOfReactants(self):
        return list(self._reactants)

    def getListOfProducts(self):
        return list(self._products)

    def isSetKineticLaw(self):
        return False


class GeneProduct(SBase):
    LABEL = "GeneProduct"
    TYPECODE = _real.SBML_FBC_GENEPRODUCT

    def __init__(self):
        SBase.__init__(self)
        self._label = ""

    def setLabel(self, v):
        self._label = _str_arg(v, "GeneProduct_setLabel")
        return OK

    def getLabel(self):
        return self._label


class FluxObjective(SBase):
    LABEL = "FluxObjective"

    def __init__(self):
        SBase.__init__(self)
        self._reaction = ""
        self._coef = NAN

    def setReaction(self, v):
        v = _str_arg(v, "FluxObjective_setReaction")
        if not _SID.match(v):
            return INVALID
        self._reaction = v
        return OK

    def getReaction(self):
        return self._reaction

    def setCoefficient(self, v):
        self._coef = _num_arg(v, "FluxObjective_setCoefficient")
        return OK

    def getCoefficient(self):
        return self._coef


class Objective(SBase):
    LABEL = "Objective"

    def __init__(self):
        SBase.__init__(self)
        self._type = ""
        self._flux = []

    def setType(self, v):
        v = _str_arg(v, "Objective_setType")
        if v not in ("maximize", "minimize"):
            self._type = ""
            return INVALID
        self._type = v
        return OK

    def getType(self):
        return self._type

    def createFluxObjective(self):
        f = FluxObjective()
        self._flux.append(f)
        return f

    def getListOfFluxObjectives(self):
        return list(self._flux)


class ListOfObjectives(_NM):
    def __init__(self, fbc):
        self._fbc = fbc

    def size(self):
        return len(self._fbc._objectives)

    def getActiveObjective(self):
        return self._fbc._active

    def __iter__(self):
        return iter(self._fbc._objectives)

    def __len__(self):
        return len(self._fbc._objectives)


class _FbcModel(_Plugin):
    def __init__(self):
        _Plugin.__init__(self, "fbc", 2)
        self._strict = None
        self._genes = []
        self._objectives = []
        self._active = ""

    def setStrict(self, v):
        self._strict = bool(v)
        return OK

    def isSetStrict(self):
        return self._strict is not None

    def createGeneProduct(self):
        g = GeneProduct()
        self._genes.append(g)
        return g

    def getListOfGeneProducts(self):
        return list(self._genes)

    def createObjective(self):
        o = Objective()
        self._objectives.append(o)
        return o

    def setActiveObjectiveId(self, v):
        v = _str_arg(v, "FbcModelPlugin_setActiveObjectiveId")
        if not _SID.match(v):
            return INVALID
        self._active = v
        return OK

    def getListOfObjectives(self):
        return ListOfObjectives(self)

    def getObjective(self, oid):
        if isinstance(oid, int):
            return self._objectives[oid] if 0 <= oid < len(self._objectives) else None
        for o in self._objectives:
            if o._id == oid:
                return o
        return None


class Member(SBase):
    LABEL = "Member"

    def __init__(self):
        SBase.__init__(self)
        self._idref = ""
        self._metaidref = ""

    def setIdRef(self, v):
        v = _str_arg(v, "Member_setIdRef")
        if not _SID.match(v):
            return INVALID
        self._idref = v
        return OK

    def getIdRef(self):
        return self._idref

    def isSetIdRef(self):
        return self._idref != ""

    def isSetMetaIdRef(self):
        return self._metaidref != ""

    def getMetaIdRef(self):
        return self._metaidref


class Group(SBase):
    LABEL = "Group"
    TYPECODE = _real.SBML_GROUPS_GROUP

    def __init__(self):
        SBase.__init__(self)
        self._kind = None
        self._members = []

    def setKind(self, v):
        v = _str_arg(v, "Group_setKind")
        if v not in ("classification", "partonomy", "collection"):
            self._kind = None
            return INVALID
        self._kind = v
        return OK

    def isSetKind(self):
        return self._kind is not None

    def getKindAsString(self):
        return self._kind if self._kind is not None else "(Unknown SBML Groups Type)"

    def createMember(self):
        m = Member()
        self._members.append(m)
        return m

    def getListOfMembers(self):
        return list(self._members)


class _GroupsModel(_Plugin):
    def __init__(self):
        _Plugin.__init__(self, "groups", 1)
        self._groups = []

    def createGroup(self):
        g = Group()
        self._groups.append(g)
        return g

    def getListOfGroups(self):
        return list(self._groups)


class Model(SBase):
    LABEL = "Model"
    TYPECODE = _real.SBML_MODEL

    def __init__(self, doc):
        SBase.__init__(self)
        self._doc = doc
        self._units = []
        self._params = []
        self._compartments = []
        self._species = []
        self._reactions = []
        if "fbc" in doc._packages:
            self._plugins["fbc"] = _FbcModel()

    def getLevel(self):
        return self._doc._level

    def getVersion(self):
        return self._doc._version

    def isSetModelHistory(self):
        return False

    def createUnitDefinition(self):
        u = UnitDefinition()
        self._units.append(u)
        return u

    def createParameter(self):
        p = Parameter()
        self._params.append(p)
        return p

    def getParameter(self, pid):
        for p in self._params:
            if p._id == pid:
                return p
        return None

    def createCompartment(self):
        c = Compartment()
        self._compartments.append(c)
        return c

    def getListOfCompartments(self):
        return list(self._compartments)

    def createSpecies(self):
        s = Species()
        self._species.append(s)
        return s

    def getListOfSpecies(self):
        return list(self._species)

    def getNumSpecies(self):
        return len(self._species)

    def createReaction(self):
        r = Reaction(self)
        self._reactions.append(r)
        return r

    def getListOfReactions(self):
        return list(self._reactions)

    def getNumReactions(self):
        return len(self._reactions)


class _FbcDoc(_Plugin):
    pass


class SBMLDocument(SBase):
    LABEL = "SBMLDocument"

    def __init__(self, ns=None):
        SBase.__init__(self)
        ns = ns or SBMLNamespaces()
        self._level, self._version = ns.level, ns.version
        self._packages = dict(ns.packages)
        self._required = {}
        self._model = None
        for k, v in self._packages.items():
            self._plugins[k] = _FbcDoc(k, v)

    def setPackageRequired(self, name, flag):
        if name not in self._packages:
            return _real.LIBSBML_PKG_UNKNOWN_VERSION
        self._required[name] = bool(flag)
        return OK

    def enablePackage(self, uri, prefix, flag):
        if flag:
            self._packages[prefix] = 1
            self._plugins[prefix] = _FbcDoc(prefix, 1)
            if self._model is not None and prefix == "groups":
                self._model._plugins["groups"] = _GroupsModel()
        return OK

    def createModel(self):
        self._model = Model(self)
        return self._model

    def getModel(self):
        return self._model

    def getLevel(self):
        return self._level

    def getVersion(self):
        return self._version

    def getNumErrors(self):
        return 0

    def convert(self, props):
        return OK


class ModelHistory(_NM):
    def __init__(self):
        self.creators = []

    def setCreatedDate(self, d):
        return OK

    def setModifiedDate(self, d):
        return OK

    def addCreator(self, c):
        self.creators.append(c)
        return OK


class ModelCreator(_NM):
    def setFamilyName(self, v):
        return OK

    def setGivenName(self, v):
        return OK

    def setOrganisation(self, v):
        return OK

    def setEmail(self, v):
        return OK


class Date(_NM):
    def __init__(self, s=None):
        self.s = s


class ConversionProperties(_NM):
    def addOption(self, *a):
        return OK


# ------------------------------------------------------------------------------------------------ text layer (token)
_DOCS = {}


def writeSBMLToString(doc):
    tok = "<sbml stand-in-document=\"%d\"/>" % len(_DOCS)
    _DOCS[tok] = _copy.deepcopy(doc)
    return tok


def readSBMLFromString(text):
    if text in _DOCS:
        return _copy.deepcopy(_DOCS[text])
    raise vsym.Concretized("readSBMLFromString on real SBML text inside a symbolic path")


def writeSBMLToFile(doc, filename):
    raise vsym.Concretized("writeSBMLToFile on a symbolic path (use a handle)")


def readSBMLFromFile(filename):
    raise vsym.Concretized("readSBMLFromFile on a symbolic path (use a handle)")


def __getattr__(name):
    if hasattr(_real, name) and isinstance(getattr(_real, name), (int, float, str)):
        return getattr(_real, name)
    raise vsym.Concretized("libsbml API not modelled by the stand-in: libsbml.%s" % name)
