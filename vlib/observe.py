"""observe(model): the full observable state of a cobra model as plain data, and
same(E, a, b): structural comparison with numeric leaves proved equal by the solver
(DESIGN.md section 2.5).  Independent of cobrapy's implementation of the things it reads:
only public attributes and the private containers the properties talk about.
"""
import z3

from . import vsym
from .vsym import SymReal, SymInt, is_inf


def _num(x):
    return isinstance(x, (SymReal, SymInt)) or (vsym._is_num(x))


def lp_snapshot(model):
    """the LP held by the model's solver as plain data (by name)"""
    s = model.solver
    s.update()
    if hasattr(s, "lp_snapshot"):
        snap = s.lp_snapshot()
        return dict(
            variables={n: dict(lb=lb, ub=ub, type=ty) for (n, lb, ub, ty) in snap["variables"]},
            constraints={n: dict(coefs=dict(co), const=k, lb=lb, ub=ub)
                         for (n, co, k, lb, ub) in snap["constraints"]},
            objective=dict(coefs=dict(snap["objective"][0]), const=snap["objective"][1],
                           direction=snap["objective"][2]),
            order=dict(variables=[v[0] for v in snap["variables"]],
                       constraints=[c[0] for c in snap["constraints"]]),
        )
    # real optlang interface (concrete replays): read back through the interface, which reads GLPK
    out = dict(variables={}, constraints={}, objective=None, order={})
    def fin(b):
        # optlang's GLPK text-format copy (pickle / deepcopy of the solver) turns "no bound" into +-DBL_MAX:
        # translation layer of the trusted base, read as infinite
        import math
        return None if (b is not None and not math.isinf(b) and abs(b) >= 1e300) else b     # a float infinity is kept (and flagged)
    for v in s.variables:
        out["variables"][v.name] = dict(lb=fin(v.lb), ub=fin(v.ub), type=v.type)
    for c in s.constraints:
        co = {}
        k = 0.0
        for t, a in c.expression.as_coefficients_dict().items():
            if t == 1:
                k = float(a)
            elif hasattr(t, "name"):
                co[t.name] = float(a)
            else:
                co[str(t)] = float(a)
        out["constraints"][c.name] = dict(coefs=co, const=k, lb=c.lb, ub=c.ub)
    oc = {}
    ok = float(getattr(s, "_objective_offset", 0) or 0)
    # the objective row as the solver holds it (the interface's .expression may be a stale cache)
    for v, a in s.objective.get_linear_coefficients(list(s.variables)).items():
        if a != 0:
            oc[v.name] = float(a)
    out["objective"] = dict(coefs=oc, const=ok, direction=s.objective.direction)
    out["order"] = dict(variables=[v.name for v in s.variables], constraints=[c.name for c in s.constraints])
    return out


def _ann(d):
    # annotation / notes: compared by value
    if isinstance(d, dict):
        return {str(k): _ann(v) for k, v in d.items()}
    if isinstance(d, (list, tuple)):
        return [_ann(v) for v in d]
    return d


def observe(model, lp=True):
    from cobra.util.solver import linear_reaction_coefficients
    o = {}
    o["id"] = model.id
    o["name"] = model.name
    o["reactions"] = [r.id for r in model.reactions]
    o["metabolites"] = [m.id for m in model.metabolites]
    o["genes"] = [g.id for g in model.genes]
    o["groups"] = [g.id for g in model.groups]
    o["index_ok"] = dict(
        reactions=all(model.reactions._dict.get(r.id) == i for i, r in enumerate(model.reactions))
        and len(model.reactions._dict) == len(model.reactions),
        metabolites=all(model.metabolites._dict.get(r.id) == i for i, r in enumerate(model.metabolites))
        and len(model.metabolites._dict) == len(model.metabolites),
        genes=all(model.genes._dict.get(r.id) == i for i, r in enumerate(model.genes))
        and len(model.genes._dict) == len(model.genes),
        groups=all(model.groups._dict.get(r.id) == i for i, r in enumerate(model.groups))
        and len(model.groups._dict) == len(model.groups),
    )
    rx = {}
    for r in model.reactions:
        rx[r.id] = dict(
            mets={m.id: c for m, c in r._metabolites.items()},
            lb=r._lower_bound, ub=r._upper_bound,
            rule=r.gene_reaction_rule,
            gpr_genes=sorted(r.gpr.genes) if r.gpr.body is not None else [],
            genes=sorted(g.id for g in r._genes),
            name=r.name, subsystem=r.subsystem,
            notes=_ann(r.notes), annotation=_ann(r.annotation),
            owned=(r._model is model),
        )
    o["rxn"] = rx
    mt = {}
    for m in model.metabolites:
        mt[m.id] = dict(
            name=m.name, formula=m.formula, charge=m.charge, compartment=m.compartment,
            notes=_ann(m.notes), annotation=_ann(m.annotation),
            reactions=sorted(x.id for x in m._reaction),
            owned=(m._model is model),
        )
    o["met"] = mt
    gn = {}
    for g in model.genes:
        gn[g.id] = dict(
            name=g.name, functional=g.functional,
            notes=_ann(g.notes), annotation=_ann(g.annotation),
            reactions=sorted(x.id for x in g._reaction),
            owned=(g._model is model),
        )
    o["gene"] = gn
    gp = {}
    for g in model.groups:
        gp[g.id] = dict(name=g.name, kind=g.kind,
                        members=sorted("%s:%s" % (type(x).__name__, x.id) for x in g.members),
                        notes=_ann(g.notes), annotation=_ann(g.annotation))
    o["group"] = gp
    o["compartments"] = dict(model.compartments)
    o["notes"] = _ann(model.notes)
    o["annotation"] = _ann(model.annotation)
    o["tolerance"] = model.tolerance
    o["contexts"] = len(model._contexts)
    try:
        lrc = linear_reaction_coefficients(model)
        o["objective"] = dict(coefs={r.id: c for r, c in lrc.items()},
                              direction=model.objective_direction)
    except Exception as e:  # reported, compared as text
        o["objective"] = dict(error=type(e).__name__)
    if lp:
        o["lp"] = lp_snapshot(model)
    return o


# ---------------------------------------------------------------- comparison
class Diff(object):
    def __init__(self):
        self.struct = []     # structural differences (paths)
        self.num = []        # (path, a, b) numeric leaves to be proved equal


def _cmp(a, b, path, d, opts):
    if _num(a) and _num(b) and not isinstance(a, bool) and not isinstance(b, bool):
        if is_inf(a) or is_inf(b):
            if not (is_inf(a) and is_inf(b) and float(a) == float(b)):
                d.struct.append((path, a, b))
            return
        if not isinstance(a, (SymReal, SymInt)) and not isinstance(b, (SymReal, SymInt)):
            if a != b:
                if isinstance(a, float) or isinstance(b, float):
                    d.num.append((path, a, b))   # tolerance decides on replays
                else:
                    d.struct.append((path, a, b))
            return
        d.num.append((path, a, b))
        return
    if isinstance(a, dict) and isinstance(b, dict):
        zero_absent = path.endswith("coefs") or path.endswith(".mets")
        for k in sorted(set(a) | set(b), key=str):
            if k in a and k in b:
                _cmp(a[k], b[k], path + "." + str(k), d, opts)
            elif zero_absent:
                x = a.get(k, b.get(k))
                if _num(x):
                    d.num.append((path + "." + str(k), a.get(k, 0), b.get(k, 0)))
                else:
                    d.struct.append((path + "." + str(k), a.get(k), b.get(k)))
            else:
                d.struct.append((path + "." + str(k), a.get(k, "<absent>"), b.get(k, "<absent>")))
        return
    if isinstance(a, (list, tuple)) and isinstance(b, (list, tuple)):
        la, lb = list(a), list(b)
        if opts.get("ignore_order") and path in opts.get("unordered", ()):
            la, lb = sorted(la, key=str), sorted(lb, key=str)
        if len(la) != len(lb):
            d.struct.append((path, la, lb))
            return
        for i, (x, y) in enumerate(zip(la, lb)):
            _cmp(x, y, "%s[%d]" % (path, i), d, opts)
        return
    if (a is None) != (b is None):
        d.struct.append((path, a, b))
        return
    if a != b:
        d.struct.append((path, a, b))


UNORDERED = ("reactions", "metabolites", "genes", "groups", "lp.order.variables", "lp.order.constraints")


def same(E, a, b, label, ignore_order=False, skip=(), **detail):
    """prove that two observations are equal; returns True if discharged"""
    a = {k: v for k, v in a.items() if k not in skip}
    b = {k: v for k, v in b.items() if k not in skip}
    d = Diff()
    _cmp(a, b, "", d, dict(ignore_order=ignore_order, unordered=["." + u for u in UNORDERED]))
    ok = True
    if d.struct:
        ok = False
        E.prove(False, label, diff=[(p, repr(x)[:80], repr(y)[:80]) for p, x, y in d.struct[:6]], ndiff=len(d.struct), **detail)
    if d.num:
        conj = E.all_of([E.eq(x, y) for (_, x, y) in d.num])
        if not E.prove(conj, label + ":values",
                       leaves=[p for (p, _, _) in d.num[:8]], **detail):
            ok = False
    elif not d.struct:
        E.prove(True, label)
    return ok
