"""Independent specification of gene rules: tree specs, text spellings, truth tables (python and z3).

A tree is a gene id (str) or a tuple (op, child, child, ...) with op in {"and","or"}.
"""
import itertools

import z3

from . import vsym

# fixed shapes over placeholder genes 0..3 (quick tier) -----------------------------------------
SHAPES = [
    0,
    ("and", 0, 1), ("or", 0, 1),
    ("and", 0, 1, 2), ("or", 0, 1, 2),
    ("or", ("and", 0, 1), 2), ("and", ("or", 0, 1), 2),
    ("or", ("and", 0, 1), ("and", 2, 3)), ("and", ("or", 0, 1), ("or", 2, 3)),
    ("and", 0, ("or", 1, ("and", 2, 3))), ("or", 0, ("and", 1, ("or", 2, 3))),
    ("or", ("and", 0, 1), ("and", 0, 2)), ("and", ("or", 0, 1), ("or", 0, 2)),
    ("and", 0, 0), ("or", 0, ("and", 0, 1)), ("and", 2, ("or", 0, 1), 3),
    # sixth seed round: a gene named twice in a flat rule; three levels with a gene shared between the alternatives; pairs
    # that have the same operator on top and the same genes per operand but combine them differently
    ("or", 0, 1, 0), ("and", 0, 1, 0),
    ("or", ("and", 0, ("or", 1, 2)), ("and", 1, 3)),
    ("or", ("and", 0, ("or", 1, 2)), 3), ("or", ("and", 0, 1, 2), 3),
    ("and", ("or", 0, ("and", 1, 2)), 3), ("and", ("or", 0, 1, 2), 3),
]


def instantiate(shape, genes):
    if isinstance(shape, int):
        return genes[shape]
    return (shape[0],) + tuple(instantiate(c, genes) for c in shape[1:])


def gen_tree(E, depth, ngenes, name="t", state=None):
    """exhaustive generation by choices: leaf (next fresh gene or reuse of gene 0) or and/or of 2..3 children"""
    state = state if state is not None else {"next": 0}
    kinds = ["leaf_new", "leaf_g0"] + (["and2", "or2", "and3", "or3"] if depth > 0 else [])
    if state["next"] >= ngenes:
        kinds = [k for k in kinds if k != "leaf_new"]
    k = E.pick(name, kinds)
    if k == "leaf_new":
        i = state["next"]
        state["next"] += 1
        return i
    if k == "leaf_g0":
        state["next"] = max(state["next"], 1)
        return 0
    op, n = k[:-1], int(k[-1])
    return (op,) + tuple(gen_tree(E, depth - 1, ngenes, "%s.%d" % (name, j), state) for j in range(n))


def leaves(tree):
    if isinstance(tree, str):
        return {tree}
    out = set()
    for c in tree[1:]:
        out |= leaves(c)
    return out


SPELLINGS = ["lower", "upper", "bitwise", "paren_ws"]


def to_text(tree, spelling="lower", top=True):
    if isinstance(tree, str):
        return "( %s )" % tree if spelling == "paren_ws" else tree
    op = {"lower": " %s ", "upper": " %s ", "bitwise": " %s ", "paren_ws": "  %s  "}[spelling] % (
        {"and": "and", "or": "or"}[tree[0]] if spelling in ("lower", "paren_ws") else
        {"and": "AND", "or": "OR"}[tree[0]] if spelling == "upper" else {"and": "&", "or": "|"}[tree[0]])
    s = op.join(to_text(c, spelling, False) for c in tree[1:])
    if not top or spelling == "paren_ws":
        return "(" + s + ")"
    return s


def truth(tree, absent):
    """python and/or value with the given genes absent"""
    if isinstance(tree, str):
        return tree not in absent
    vals = [truth(c, absent) for c in tree[1:]]
    return all(vals) if tree[0] == "and" else any(vals)


def tt_formula(tree, absent):
    """z3 term: absent is {gene: z3 Bool (True = absent)}"""
    if isinstance(tree, str):
        return z3.Not(absent[tree])
    vals = [tt_formula(c, absent) for c in tree[1:]]
    return z3.And(*vals) if tree[0] == "and" else z3.Or(*vals)


def substitute_false(tree, removed):
    """tree with the removed genes set to false, simplified; returns None (=false) / tree"""
    if isinstance(tree, str):
        return None if tree in removed else tree
    kids = [substitute_false(c, removed) for c in tree[1:]]
    if tree[0] == "and":
        if any(k is None for k in kids):
            return None
        return ("and",) + tuple(kids)
    kids = [k for k in kids if k is not None]
    if not kids:
        return None
    if len(kids) == 1:
        return kids[0]
    return ("or",) + tuple(kids)


def selftest():
    """brute-force comparison of truth / tt_formula / substitute_false on all SHAPES (oracle self-test)"""
    genes = ["a", "b", "c", "d"]
    n = 0
    for sh in SHAPES:
        t = instantiate(sh, genes)
        for r in range(len(genes) + 1):
            for K in itertools.combinations(genes, r):
                K = set(K)
                absent = {g: z3.BoolVal(g in K) for g in genes}
                f = z3.simplify(tt_formula(t, absent))
                assert z3.is_true(f) == truth(t, K), (t, K)
                for rr in range(len(genes) + 1):
                    for R in itertools.combinations(genes, rr):
                        sub = substitute_false(t, set(R))
                        want = truth(t, K | set(R))
                        got = False if sub is None else truth(sub, K)
                        assert got == want, (t, K, R)
                n += 1
    return n


class SymSet(object):
    """a set of gene ids whose membership is symbolic: `gid in s` forks on a z3 Bool per id"""

    def __init__(self, E, ids, name="absent"):
        self.E = E
        self.ids = list(ids)
        if E.symbolic:
            self.b = {g: z3.Bool("%s[%s]" % (name, i)) for i, g in enumerate(self.ids)}
            for i, g in enumerate(self.ids):
                E.inputs["%s[%d]" % (name, i)] = self.b[g]
            self.concrete = None
        else:
            self.b = None
            self.concrete = set()
            for i, g in enumerate(self.ids):
                v = E.given.get("%s[%d]" % (name, i), False)
                if v in (True, "True", 1):
                    self.concrete.add(g)
                E.inputs["%s[%d]" % (name, i)] = bool(v in (True, "True", 1))

    def __contains__(self, gid):
        if self.concrete is not None:
            return gid in self.concrete
        if gid not in self.b:
            return False
        return bool(vsym.SymBool(self.b[gid]))

    def formula(self, tree):
        if self.concrete is not None:
            return truth(tree, self.concrete)
        return tt_formula(tree, self.b)

    def __iter__(self):
        if self.concrete is not None:
            return iter(self.concrete)
        return iter([g for g in self.ids if g in self])

    def __len__(self):
        return len(list(iter(self)))
