"""Independent specification side of every LP property (DESIGN.md section 2.5).

``LP`` is a small linear program assembled by the *harness* from cobra's Python
objects (reaction bounds, stoichiometry, an objective the harness chose) - never from
what cobrapy put into the solver.  ``LP.optimum`` characterises the true optimum by
its own KKT system (fresh variables on the current path), forking on feasibility the
same way the stub does, so oracle and implementation are compared by the solver for
every value of the symbolic inputs at once.  On a concrete replay the same code
solves the concrete instance exactly over the rationals.
"""
import z3

from . import vsym
from .vsym import SymReal, lift, rv, is_inf


def _b(x):
    """bound -> None (infinite) or value"""
    if x is None:
        return None
    if is_inf(x):
        return None
    return x


class LP(object):
    def __init__(self, tag):
        self.tag = tag
        self.vars = []          # names
        self.lb = {}
        self.ub = {}
        self.rows = []          # (name, {var: coef}, lb, ub)

    def add_var(self, name, lb=None, ub=None):
        self.vars.append(name)
        self.lb[name] = _b(lb)
        self.ub[name] = _b(ub)

    def add_row(self, name, coefs, lb=None, ub=None):
        self.rows.append((name, dict(coefs), _b(lb), _b(ub)))

    def copy(self, tag):
        o = LP(tag)
        o.vars = list(self.vars)
        o.lb = dict(self.lb)
        o.ub = dict(self.ub)
        o.rows = [(n, dict(c), l, u) for (n, c, l, u) in self.rows]
        return o

    # ---------------------------------------------------------------- encodings
    def fresh_point(self, E, tag=None):
        tag = tag or self.tag
        return {v: E.fresh("%s.%s" % (tag, v)).t for v in self.vars}

    @staticmethod
    def lin(coefs, x):
        t = rv(0)
        for v, co in coefs.items():
            if not isinstance(co, SymReal) and co == 0:
                continue
            t = t + lift(co) * x[v]
        return t

    def feasible(self, x, slack=0):
        cs = []
        sl = rv(slack)
        for v in self.vars:
            if self.lb[v] is not None:
                cs.append(x[v] >= lift(self.lb[v]) - sl)
            if self.ub[v] is not None:
                cs.append(x[v] <= lift(self.ub[v]) + sl)
        for (n, co, l, u) in self.rows:
            r = self.lin(co, x)
            if l is not None:
                cs.append(r >= lift(l) - sl)
            if u is not None:
                cs.append(r <= lift(u) + sl)
        return z3.And(*cs) if cs else z3.BoolVal(True)

    def _unbounded(self, c, sgn):
        d = {v: z3.Real("%s.rec.%s" % (self.tag, v)) for v in self.vars}
        cs = []
        for v in self.vars:
            if self.lb[v] is not None:
                cs.append(d[v] >= 0)
            if self.ub[v] is not None:
                cs.append(d[v] <= 0)
        for (n, co, l, u) in self.rows:
            if any(isinstance(a, SymReal) for a in co.values()):
                raise vsym.HarnessError("oracle LP with symbolic matrix")
            r = self.lin(co, d)
            if l is not None:
                cs.append(r >= 0)
            if u is not None:
                cs.append(r <= 0)
        cs.append(sgn * self.lin(c, d) > 0)
        s = z3.Solver()
        s.add(*cs)
        r = s.check()
        if r == z3.unknown:
            raise vsym.Inconclusive("oracle recession query unknown")
        return r == z3.sat

    def optimum(self, E, c, sense, name=None):
        """-> (status, value term or None, point dict or None, duals)
        status in optimal / infeasible / unbounded.  Forks the path on feasibility."""
        name = name or self.tag
        x = self.fresh_point(E, name + ".v")
        feas = self.feasible(x)
        if not E.exists_fork(list(x.values()), feas, name=name + ".oracle_feasible"):
            if not E.symbolic and E.feasible(self.feasible(x, slack=1e-3)):
                # numeric replay inside the solver's tolerance band: infeasible by less than 1e-3 (GLPK was seen to accept 1.5e-4),
                # a float solver may legitimately call it feasible - no verdict from this instance
                raise vsym.Abort("tolerance band: infeasible by less than 1e-3")
            return "infeasible", None, None, None
        sgn = 1 if sense == "max" else -1
        if self._unbounded(c, sgn):
            return "unbounded", None, x, None
        y = {n: E.fresh("%s.y.%s" % (name, n)).t for (n, _, _, _) in self.rows}
        d = {v: E.fresh("%s.d.%s" % (name, v)).t for v in self.vars}
        kkt = []
        for v in self.vars:
            t = sgn * lift(c.get(v, 0))
            for (n, co, l, u) in self.rows:
                a = co.get(v, 0)
                if isinstance(a, SymReal) or a != 0:
                    t = t - lift(a) * y[n]
            kkt.append(d[v] == t)
            if self.ub[v] is not None:
                kkt.append(z3.Implies(d[v] > 0, x[v] == lift(self.ub[v])))
            else:
                kkt.append(d[v] <= 0)
            if self.lb[v] is not None:
                kkt.append(z3.Implies(d[v] < 0, x[v] == lift(self.lb[v])))
            else:
                kkt.append(d[v] >= 0)
        for (n, co, l, u) in self.rows:
            r = self.lin(co, x)
            if u is not None:
                kkt.append(z3.Implies(y[n] > 0, r == lift(u)))
            else:
                kkt.append(y[n] <= 0)
            if l is not None:
                kkt.append(z3.Implies(y[n] < 0, r == lift(l)))
            else:
                kkt.append(y[n] >= 0)
        E.assume(z3.And(*kkt))
        return "optimal", self.lin(c, x), x, dict(y=y, d=d, sgn=sgn)


def exists_point(E, lp, name, extra=None, tag=None):
    """fork on 'the LP (plus an optional extra condition extra(point, slack)) has a point'.  On a numeric replay an instance
    that is infeasible by less than 1e-3 gives no verdict (a float solver may legitimately call it feasible): Abort."""
    x = lp.fresh_point(E, tag or name)
    f = lp.feasible(x) if extra is None else z3.And(lp.feasible(x), extra(x, 0))
    if E.exists_fork(list(x.values()), f, name=name):
        return True
    if not E.symbolic:
        rel = lp.feasible(x, slack=1e-3) if extra is None else z3.And(lp.feasible(x, slack=1e-3), extra(x, 1e-3))
        if E.feasible(rel):
            raise vsym.Abort("tolerance band: infeasible by less than 1e-3")
    return False


def fba_lp(model, tag="fba", reactions=None):
    """net-flux problem of the model's *Python objects*: one variable per reaction in
    [lb,ub], one equality per metabolite"""
    lp = LP(tag)
    rxns = list(model.reactions) if reactions is None else reactions
    for r in rxns:
        lp.add_var(r.id, r.lower_bound, r.upper_bound)
    for m in model.metabolites:
        co = {}
        for r in rxns:
            a = r._metabolites.get(m)
            if a is not None:
                co[r.id] = a
        lp.add_row(m.id, co, 0, 0)
    return lp


def add_abs(lp, names, prefix="abs_"):
    """auxiliary a_r >= |v_r| for the given variables; returns {r: aux name}"""
    out = {}
    for r in names:
        a = prefix + r
        lp.add_var(a, 0, None)
        lp.add_row(a + "_p", {a: 1, r: -1}, 0, None)
        lp.add_row(a + "_n", {a: 1, r: 1}, 0, None)
        out[r] = a
    return out


def zabs(t):
    return z3.If(t >= 0, t, -t)
