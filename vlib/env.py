"""Environment set-up for harnesses: solver registration, shims (DESIGN.md section 2.3),
and the mode switch symbolic (symlp stub + shims) / concrete (real glpk, no shims).

No file under /repo is edited: every shim rebinds a module-level *name* in the cobra
module that uses it.
"""
import builtins
import logging
import os
import math
import types
import warnings

import numpy as _real_np

from . import vsym
from .vsym import SymReal, SymBool, SymInt

_ORIG = {}
_INSTALLED = {"mode": None}


# ---------------------------------------------------------------- shim objects
class _FloatMeta(type):
    def __instancecheck__(cls, x):
        return isinstance(x, builtins.float)

    def __call__(cls, x=0.0):
        if isinstance(x, (SymReal, SymInt)):
            return x
        return builtins.float(x)


class Float(metaclass=_FloatMeta):
    """stand-in for the builtin ``float`` inside cobra modules that call float(value).  numpy / pandas do not accept
    it as ``dtype=float``; a TypeError naming it is treated like a proxy reaching C code (vsym.run_one)"""


def _isinf(x):
    if isinstance(x, (SymReal, SymInt)):
        return False
    return math.isinf(x)


def _isnan(x):
    if isinstance(x, (SymReal, SymInt)):
        return False
    return math.isnan(x)


class _NpProxy(types.ModuleType):
    """numpy with object-dtype allocation (float64 arrays cannot hold proxies)"""

    def __init__(self):
        types.ModuleType.__init__(self, "numpy_proxy")

    def __getattr__(self, name):
        return getattr(_real_np, name)

    @staticmethod
    def zeros(shape, dtype=None, **kw):
        if dtype is None or dtype is float or dtype is builtins.float:
            a = _real_np.empty(shape, dtype=object)
            a.fill(0.0)
            return a
        return _real_np.zeros(shape, dtype=dtype, **kw)

    @staticmethod
    def empty(shape, dtype=None, **kw):
        if dtype is None or dtype is float or dtype is builtins.float:
            a = _real_np.empty(shape, dtype=object)
            a.fill(0.0)
            return a
        return _real_np.empty(shape, dtype=dtype, **kw)

    @staticmethod
    def _has_proxy(x):
        if isinstance(x, (SymReal, SymInt, SymBool)):
            return True
        if isinstance(x, (list, tuple)):
            return any(_NpProxy._has_proxy(y) for y in x)
        if isinstance(x, _real_np.ndarray) and x.dtype == object:
            return any(isinstance(y, (SymReal, SymInt, SymBool)) for y in x.flat)
        return False

    @staticmethod
    def array(obj, dtype=None, **kw):
        if (dtype is float or dtype is builtins.float) :
            if _NpProxy._has_proxy(obj):
                return _real_np.array(obj, dtype=object, **kw)
            return _real_np.array(obj, dtype=builtins.float, **kw)
        return _real_np.array(obj, dtype=dtype, **kw)

    @staticmethod
    def asarray(obj, dtype=None, **kw):
        if (dtype is float or dtype is builtins.float):
            if _NpProxy._has_proxy(obj):
                return _real_np.asarray(obj, dtype=object, **kw)
            return _real_np.asarray(obj, dtype=builtins.float, **kw)
        return _real_np.asarray(obj, dtype=dtype, **kw)

    @staticmethod
    def isfinite(x):
        if isinstance(x, (SymReal, SymInt)):
            return True
        if isinstance(x, _real_np.ndarray) and x.dtype == object:
            out = _real_np.empty(x.shape, dtype=bool)
            for idx, y in _real_np.ndenumerate(x):
                out[idx] = True if isinstance(y, (SymReal, SymInt)) else bool(_real_np.isfinite(builtins.float(y)))
            return out
        return _real_np.isfinite(x)

    @staticmethod
    def isnan(x):
        if isinstance(x, (SymReal, SymInt)):
            return False
        return _real_np.isnan(x)

    @staticmethod
    def isinf(x):
        if isinstance(x, (SymReal, SymInt)):
            return False
        return _real_np.isinf(x)


NP = _NpProxy()


class TextStub(object):
    """stand-in for the text layer of json / ruamel.yaml (C library code): dump keeps a structural deep copy
    (OrderedDict -> dict with str keys, tuples -> lists; non-finite floats rejected like allow_nan=False),
    load returns it.  What is exchanged is an opaque token string."""
    _REG = {}

    def __init__(self, kind):
        self.kind = kind

    @classmethod
    def _copy(cls, x):
        if isinstance(x, dict):
            return {str(k): cls._copy(v) for k, v in x.items()}
        if isinstance(x, (list, tuple)):
            return [cls._copy(v) for v in x]
        if isinstance(x, builtins.float) and (math.isinf(x) or math.isnan(x)):
            raise ValueError("Out of range float values are not JSON compliant")
        if isinstance(x, (str, int, builtins.float, bool, SymReal)) or x is None:
            return x
        if isinstance(x, (_real_np.floating, _real_np.integer)):
            return x.item()
        raise TypeError("Object of type %s is not serializable" % type(x).__name__)

    def _token(self, obj):
        t = "<%s-document-%d>" % (self.kind, len(self._REG))
        self._REG[t] = self._copy(obj)
        return t

    def dumps(self, obj, **kw):
        return self._token(obj)

    def _real(self):
        if self.kind == "json":
            import json
            return json
        from ruamel.yaml.main import YAML
        return YAML(typ="rt")

    def loads(self, doc):
        if doc not in self._REG:            # a real document (e.g. a file shipped with the package)
            return self._real().loads(doc)
        return self._copy(self._REG[doc])

    def dump(self, obj, stream=None, **kw):
        t = self._token(obj)
        if stream is None:
            return t
        stream.write(t)

    def load(self, stream):
        doc = stream.read() if hasattr(stream, "read") else stream
        if doc not in self._REG:
            import io
            return self._real().load(io.StringIO(doc)) if self.kind == "yaml" else self._real().loads(doc)
        return self._copy(self._REG[doc])


def _rebind(module, name, value):
    key = (module.__name__, name)
    if key not in _ORIG:
        _ORIG[key] = (module, name, getattr(module, name, _MISSING))
    setattr(module, name, value)


_MISSING = object()


def _restore_all():
    for (module, name, old) in list(_ORIG.values()):
        if old is _MISSING:
            try:
                delattr(module, name)
            except AttributeError:
                pass
        else:
            setattr(module, name, old)
    _ORIG.clear()


def shim_list():
    return sorted("%s.%s" % k for k in _ORIG)


# ---------------------------------------------------------------- install
def install(mode, solver="glpk"):
    """mode: 'symbolic' (stub + shims) or 'concrete' (real solver, everything restored)"""
    import cobra
    import cobra.core.reaction
    import cobra.core.solution
    import cobra.core.model
    import cobra.flux_analysis.variability
    import cobra.flux_analysis.deletion
    import cobra.io.dict
    import cobra.util.solver
    import optlang.symbolics
    from . import symlp

    logging.disable(logging.CRITICAL)
    warnings.filterwarnings("ignore")
    cfg = cobra.Configuration()
    cfg.processes = 1           # analyses that take their process count from the configuration run serially (C14 passes it explicitly)
    if mode == "symbolic":
        cobra.util.solver.solvers["symlp"] = symlp
        cobra.util.solver.solvers["symlp_twin"] = symlp.TWIN
        cfg.solver = "symlp"
        cfg.bounds = (-1000.0, 1000.0)
        cfg.tolerance = 1e-7
        basic = (optlang.symbolics.Basic, symlp.LinExpr)
        _rebind(cobra.core.reaction, "isinf", _isinf)
        _rebind(cobra.core.solution, "np", NP)
        _rebind(cobra.flux_analysis.variability, "np", NP)
        _rebind(cobra.io.dict, "float", Float)
        _rebind(cobra.io.dict, "np", NP)
        _rebind(cobra.util.solver, "float", Float)
        _rebind(cobra.util.solver, "Basic", basic)
        _rebind(cobra.core.model, "Basic", basic)
        import sys as _sys
        import cobra.summary
        import cobra.flux_analysis
        import cobra.medium
        import cobra.manipulation
        # float(x) anywhere in cobra is the identity on proxies (a change to cobrapy that adds a float() call
        # must not turn into a harness error); isinstance(x, float) keeps working through the metaclass
        for name, mod in list(_sys.modules.items()):
            if name.startswith("cobra.") and mod is not None and "float" not in vars(mod) and not name.startswith("cobra.io.sbml"):
                _rebind(mod, "float", Float)
        # numpy stand-in (object-dtype allocation for dtype=float when proxies are present) in every cobra module that
        # binds numpy as `np`, for the same reason
        for name, mod in list(_sys.modules.items()):
            if name.startswith("cobra.") and mod is not None and vars(mod).get("np") is _real_np \
                    and not name.startswith(("cobra.io.sbml", "cobra.sampling", "cobra.io.mat")):
                _rebind(mod, "np", NP)
        import cobra.io.sbml
        from . import fakesbml
        _rebind(cobra.io.sbml, "libsbml", fakesbml)       # documented stand-in for the libsbml object model (DESIGN 10.5)
        import cobra.io.json
        import cobra.io.yaml
        _rebind(cobra.io.json, "json", TextStub("json"))
        _rebind(cobra.io.yaml, "yaml", TextStub("yaml"))
    else:
        _restore_all()
        cfg.solver = solver
        cfg.bounds = (-1000.0, 1000.0)
        cfg.tolerance = 1e-7
    _INSTALLED["mode"] = mode


_OBJ_N = [0]
_HASH_MUL = 2654435761 * (2 * int(os.environ.get("VERIF_SEED", "0") or 0) + 1)


def _object_hash(self):
    """cobra objects hash by address, so the iteration order of sets of reactions/metabolites (e.g. in the
    `medium` setter) differs from run to run; exploration by re-execution needs the same order on every
    execution of a prefix.  Pinned like PYTHONHASHSEED: hash = scrambled creation number on this path (the
    scrambling depends on VERIF_SEED, so different seeds see different orders).  Part of every claim."""
    d = self.__dict__
    h = d.get("_vhash")
    if h is None:
        _OBJ_N[0] += 1
        h = d["_vhash"] = (_OBJ_N[0] * _HASH_MUL) & 0x3FFFFFFF
    return h


def for_path(E, solver="glpk"):
    """install the environment matching the path's mode (idempotent)"""
    import cobra.core.object
    _OBJ_N[0] = 0
    if cobra.core.object.Object.__hash__ is not _object_hash:
        cobra.core.object.Object.__hash__ = _object_hash
    want = "symbolic" if E.symbolic else "concrete:" + solver
    if _INSTALLED["mode"] != want:
        if E.symbolic:
            install("symbolic")
        else:
            install("concrete", solver)
        _INSTALLED["mode"] = want
